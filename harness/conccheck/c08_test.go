package conccheck

import (
	"fmt"
	"testing"

	"github.com/anishathalye/porcupine"
	"github.com/couchbase/nitro"
	"pgregory.net/rapid"

	"verif/lib/ev"
	"verif/lib/sched"
)

type refOp struct {
	kind int // 0 open, 1 close, 2 newiterator(+close later), 3 iterator close
	snap int
}

type refEv struct {
	th        int
	kind      int
	snap      int
	ok        bool
	call, ret int64
}

func (e refEv) String() string {
	k := [...]string{"open", "close", "newiter", "iterclose"}[e.kind]
	return fmt.Sprintf("T%d %s(s%d)=%v@[%d,%d]", e.th, k, e.snap, e.ok, e.call, e.ret)
}

// counter model per snapshot: Open/NewIterator succeed iff count > 0; Close decrements.
func refModel(initial int) porcupine.Model {
	return porcupine.Model{
		Init: func() interface{} { return initial },
		Step: func(st, in, out interface{}) (bool, interface{}) {
			n := st.(int)
			e := in.(refEv)
			switch e.kind {
			case 0, 2:
				if n > 0 {
					return e.ok, n + 1
				}
				return !e.ok, n
			default:
				if n <= 0 {
					return false, n
				}
				return true, n - 1
			}
		},
		Equal: func(a, b interface{}) bool { return a.(int) == b.(int) },
	}
}

// runRefRound: controlled threads own references on 1-3 snapshots and Open / Close /
// NewIterator / Iterator.Close them concurrently; an outsider holds only the pointers.
func runRefRound(t *rapid.T, c *CW, f *failer) (events []refEv, initial []int, racedFinalClose bool) {
	return runRefRoundKeep(t, c, f, nil)
}

// runRefRoundKeep: keep[j] references of snapshot j are not handed to the threads (the harness releases them later).
func runRefRoundKeep(t *rapid.T, c *CW, f *failer, keep map[int]int) (events []refEv, initial []int, racedFinalClose bool) {
	kept := map[int]int{}
	for j, n := range keep {
		kept[j] = n
	}
	nth := rapid.IntRange(2, 4).Draw(t, "threads")
	ns := len(c.snaps)
	// every thread starts with 0-2 references per snapshot (opened sequentially here)
	own := make([][]int, nth)
	initial = make([]int, ns)
	for j := range c.snaps {
		initial[j] = c.snaps[j].refs
	}
	for i := 0; i < nth; i++ {
		own[i] = make([]int, ns)
		if i == nth-1 && rapid.Bool().Draw(t, "outsider") {
			continue // holds the pointers but no reference
		}
		for j := 0; j < ns; j++ {
			n := rapid.IntRange(0, 2).Draw(t, "own")
			for k := 0; k < n; k++ {
				if !c.snaps[j].snap.Open() {
					f.failf("open-result", "sequential Open of a held snapshot failed")
				}
				c.snaps[j].refs++
				initial[j]++
				own[i][j]++
			}
		}
	}
	// the harness's original reference of each snapshot is handed to thread 0 (kept[j] references stay with the harness)
	for j := 0; j < ns; j++ {
		own[0][j] += c.snaps[j].refs - sum(own, j) - kept[j]
	}
	scripts := make([][]refOp, nth)
	for i := range scripts {
		n := rapid.IntRange(1, 6).Draw(t, "oplen")
		for k := 0; k < n; k++ {
			scripts[i] = append(scripts[i], refOp{kind: []int{0, 0, 1, 1, 1, 2}[rapid.IntRange(0, 5).Draw(t, "op")], snap: rapid.IntRange(0, ns-1).Draw(t, "snap")})
		}
	}
	picker, pdesc := sched.DrawPicker(t, nth, 600)
	f.logf("refround own=%v scripts=%v sched=%s", own, scripts, pdesc)
	s := sched.New(picker)
	for i := range scripts {
		script := scripts[i]
		mine := own[i]
		s.Go(func(th *sched.Thread) {
			var iters []*nitro.Iterator
			var iterSnap []int
			closeOne := func(j int) {
				e := refEv{th: th.ID, kind: 1, snap: j, ok: true, call: s.Tick()}
				c.snaps[j].snap.Close()
				e.ret = s.Tick()
				events = append(events, e)
				mine[j]--
			}
			for _, o := range script {
				th.InOp = true
				switch o.kind {
				case 0:
					e := refEv{th: th.ID, kind: 0, snap: o.snap, call: s.Tick()}
					e.ok = c.snaps[o.snap].snap.Open()
					e.ret = s.Tick()
					events = append(events, e)
					if e.ok {
						mine[o.snap]++
					}
				case 1:
					if mine[o.snap] > 0 {
						closeOne(o.snap)
					}
				case 2:
					e := refEv{th: th.ID, kind: 2, snap: o.snap, call: s.Tick()}
					it := c.snaps[o.snap].snap.NewIterator()
					e.ok = it != nil
					e.ret = s.Tick()
					events = append(events, e)
					if it != nil {
						iters = append(iters, it)
						iterSnap = append(iterSnap, o.snap)
					}
				}
				th.InOp = false
				s.Yield(0)
			}
			// release everything this thread owns
			for k, it := range iters {
				e := refEv{th: th.ID, kind: 3, snap: iterSnap[k], ok: true, call: s.Tick()}
				it.Close()
				e.ret = s.Tick()
				events = append(events, e)
			}
			for j := range mine {
				for mine[j] > 0 {
					closeOne(j)
				}
			}
		})
	}
	c.installHooks(s)
	fail := s.Run()
	c.removeHooks()
	if fail != nil {
		c.abandon()
		f.failf(c.failSig(fail), "%v\nevents: %v", fail, events)
	}
	for j, si := range c.snaps {
		si.refs = kept[j] // every other reference was handed to the threads and released by them
	}
	// classification: an Open/NewIterator overlapped a Close on the same snapshot
	for _, a := range events {
		if a.kind != 0 && a.kind != 2 {
			continue
		}
		for _, b := range events {
			if (b.kind == 1 || b.kind == 3) && b.snap == a.snap && b.th != a.th && a.call < b.ret && b.call < a.ret {
				racedFinalClose = true
			}
		}
	}
	return
}

func sum(own [][]int, j int) int {
	n := 0
	for i := range own {
		n += own[i][j]
	}
	return n
}

// C08: snapshot handles - the reference count never leaves zero.
func TestC08(t *testing.T) {
	st := ev.Get("C08", "TestC08")
	rapid.Check(t, func(t *rapid.T) {
		sched.SeedRand(t)
		f := &failer{t: t, st: st}
		// with user-managed memory (half of the cases) the shutdown audit also sees accessor tokens leaked by
		// a failed Open/NewIterator: they would leave unlinked nodes unfreed
		c := newCW(f, false, rapid.Bool().Draw(t, "mm"), 1)
		defer c.teardown()
		c.hookSequential()
		// a little history so that every snapshot owns garbage and the collector has work
		ns := rapid.IntRange(1, 3).Draw(t, "snapshots")
		w := c.ws[0]
		for j := 0; j < ns; j++ {
			for _, k := range []string{"a", "b", "c", "d"} {
				if rapid.Bool().Draw(t, "put") {
					if w.Put2([]byte(k)) != nil {
						c.state[k] = k
					}
				} else if w.Delete([]byte(k)) {
					delete(c.state, k)
				}
			}
			c.snapshot(nil, nil)
		}
		// sometimes a burst: hundreds of short-lived snapshots with garbage are created and released behind the
		// held ones, so that releasing the oldest later hands hundreds of lists to the collector in one pass
		storm := 0
		if rapid.IntRange(0, 7).Draw(t, "storm") == 0 {
			storm = rapid.IntRange(260, 330).Draw(t, "stormlen")
			for j := 0; j < storm; j++ {
				k := []byte{'s', byte('0' + j%7)}
				if !w.Delete(k) {
					w.Put(k)
				}
				s, _ := c.db.NewSnapshot()
				s.Close()
			}
			// the keys toggled by the storm
			for j := 0; j < 7; j++ {
				k := string([]byte{'s', byte('0' + j)})
				if w.GetNode([]byte(k)) != nil {
					c.state[k] = k
				} else {
					delete(c.state, k)
				}
			}
		}
		f.logf("c08 snapshots=%d storm=%d", ns, storm)
		var keep map[int]int
		if storm > 0 {
			// the oldest snapshot keeps one reference with the harness: it is released sequentially afterwards,
			// at full speed, so that one collection pass has to hand over the whole burst
			if !c.snaps[0].snap.Open() {
				f.failf("open-result", "Open of a held snapshot failed")
			}
			c.snaps[0].refs++
			keep = map[int]int{0: 1}
		}
		c.finalCloseOnly = rapid.Bool().Draw(t, "finalcloseonly")
		c.coarse = rapid.Bool().Draw(t, "coarse")
		// the windows this property is about: Open between test and add, Close at retirement, GC around its try-lock
		c.hot = sched.DrawHotPlans(t, []int{nitro.VerifPtOpenTested, nitro.VerifPtCloseRetire, nitro.VerifPtGCBeforeTryLock, nitro.VerifPtGCPassDone}, 4, 30)
		f.logf("finalCloseOnly=%v coarse=%v hot=%s", c.finalCloseOnly, c.coarse, sched.FmtHot(c.hot))
		events, initial, raced := runRefRoundKeep(t, c, f, keep)
		// counter linearizability per snapshot
		for j := range c.snaps {
			var pops []porcupine.Operation
			for _, e := range events {
				if e.snap == j {
					pops = append(pops, porcupine.Operation{ClientId: e.th, Input: e, Call: e.call, Return: e.ret})
				}
			}
			if !porcupine.CheckOperations(refModel(initial[j]), pops) {
				var mine []refEv
				for _, e := range events {
					if e.snap == j {
						mine = append(mine, e)
					}
				}
				f.failf("refcount-not-linearizable", "Open/NewIterator/Close results on snapshot s%d (initial count %d) do not fit a reference counter that never leaves zero: %v", j, initial[j], mine)
			}
		}
		// after the last Close nothing succeeds any more
		for j, si := range c.snaps {
			if si.refs > 0 {
				continue
			}
			if si.snap.Open() {
				f.failf("open-after-release", "Open succeeded on snapshot s%d after every reference was released", j)
			}
			if it := si.snap.NewIterator(); it != nil {
				f.failf("open-after-release", "NewIterator returned an iterator on snapshot s%d after every reference was released", j)
			}
		}
		// retired exactly once, collector makes progress on everything
		c.closeAllAndCollect(true)
		c.shutdown()
		st.Case(f.desc(), raced && c.Preempts > 0)
		st.AddExtra("sched-steps", int64(c.Steps))
		st.AddExtra("ref-events", int64(len(events)))
	})
}
