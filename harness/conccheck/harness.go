// Package conccheck runs real nitro instances with harness threads (writers,
// snapshot openers/closers, readers) under the token-passing scheduler. nitro's
// own worker goroutines run freely; the scheduler recognises controlled threads by
// goroutine id.
package conccheck

import (
	"encoding/json"
	"fmt"
	"runtime/debug"
	"sort"
	"strings"
	"sync"
	"time"
	"unsafe"

	"github.com/couchbase/nitro"
	"github.com/couchbase/nitro/skiplist"
	"pgregory.net/rapid"

	"verif/lib/ev"
	"verif/lib/guard"
	"verif/lib/lin"
	"verif/lib/sched"
)

var processFailed bool

type failer struct {
	t   *rapid.T
	st  *ev.Stats
	log []string
}

func (f *failer) logf(format string, args ...any) {
	f.log = append(f.log, fmt.Sprintf(format, args...))
}
func (f *failer) desc() string { return strings.Join(f.log, "; ") }
func (f *failer) failf(sig, format string, args ...any) {
	msg := fmt.Sprintf(format, args...)
	processFailed = true
	f.st.Fail(sig, msg+"\nCASE: "+f.desc())
	f.t.Fatalf("FAIL[%s] %s\nCASE: %s", sig, msg, f.desc())
}

type snapInfo struct {
	snap    *nitro.Snapshot
	sn      uint32
	content []string
	refs    int // references the harness believes it holds
}

type CW struct {
	hot            map[int][]int // per yield point: plan of parkings (sched.Sched.Hot), installed by installHooks
	coarse         bool          // installHooks: skiplist-level yield points are not scheduling points
	finalCloseOnly bool          // closeAllAndCollect relies on the final Close instead of an explicit GC()
	f              *failer
	kv             bool
	mm             bool
	arena          *guard.Arena
	db             *nitro.Nitro
	ws             []*nitro.Writer
	state          map[string]string // key -> stored item bytes of the live item
	snaps          []*snapInfo
	// per snapshot number: how often the retirement point was reached
	retire   map[uint32]int
	retireMu sync.Mutex
	s        *sched.Sched
	closed   bool
	nodeIDs  map[*skiplist.Node]int64
	nextID   int64
	rounds   int
	Preempts int
	Steps    int
	overlaps int
}

func newCW(f *failer, kv, mm bool, nwriters int) *CW {
	debug.SetPanicOnFault(true)
	c := &CW{f: f, kv: kv, mm: mm, state: map[string]string{}, retire: map[uint32]int{}, nodeIDs: map[*skiplist.Node]int64{}}
	cfg := nitro.DefaultConfig()
	if kv {
		cfg.SetKeyComparator(nitro.CompareKV)
	}
	if mm {
		c.arena = guard.Get(guard.Quarantine)
		cfg.UseMemoryMgmt(c.arena.Malloc, c.arena.Free)
	}
	c.db = nitro.NewWithConfig(cfg)
	for i := 0; i < nwriters; i++ {
		c.ws = append(c.ws, c.db.NewWriter())
	}
	return c
}

// restoreInto replaces the (still empty) instance's content by a backup of a sequentially
// built instance holding the given items: the rounds then run on a restored instance.
func (c *CW) restoreInto(items [][]byte, dir string, nwriters int) {
	cfg := nitro.DefaultConfig()
	if c.kv {
		cfg.SetKeyComparator(nitro.CompareKV)
	}
	src := nitro.NewWithConfig(cfg)
	w := src.NewWriter()
	for _, it := range items {
		w.Put(it)
	}
	snap, _ := src.NewSnapshot()
	if err := src.StoreToDisk(dir, snap, 2, nil); err != nil {
		c.f.failf("setup", "StoreToDisk: %v", err)
	}
	src.Close()
	// the target instance must be fresh: no writers yet
	rs, err := c.db.LoadFromDisk(dir, 2, nil)
	if err != nil {
		c.f.failf("load-error-after-successful-store", "LoadFromDisk: %v", err)
	}
	for i := 0; i < nwriters; i++ {
		c.ws = append(c.ws, c.db.NewWriter())
	}
	sn, _ := nitro.VerifSnapshotSn(rs)
	si := &snapInfo{snap: rs, sn: sn, refs: 1}
	c.snaps = append(c.snaps, si)
	si.content = c.scan(rs)
	for _, it := range si.content {
		c.state[c.keyOf([]byte(it))] = it
	}
	if len(si.content) != len(items) {
		c.f.failf("restore-content", "restored %d items, stored %d", len(si.content), len(items))
	}
}

func (c *CW) keyOf(item []byte) string {
	if c.kv {
		k, _ := nitro.KVFromBytes(item)
		return string(k)
	}
	return string(item)
}

func (c *CW) itemFor(key string, val string) []byte {
	if c.kv {
		return nitro.KVToBytes([]byte(key), []byte(val))
	}
	return []byte(key)
}

func (c *CW) nid(n *skiplist.Node) int64 {
	if n == nil {
		return 0
	}
	if id, ok := c.nodeIDs[n]; ok {
		return id
	}
	c.nextID++
	c.nodeIDs[n] = c.nextID
	return c.nextID
}

// installHooks routes every yield point to the scheduler; retirement points are counted.
func (c *CW) installHooks(s *sched.Sched) {
	c.s = s
	s.UseGid = true
	s.Hot = c.hot
	if c.coarse {
		// coarse schedules: only nitro's own yield points (Open/Close/DeleteNode/GC) and operation boundaries are
		// scheduling points, so that a drawn schedule of a few dozen steps reaches a specific pair of them
		skiplist.VerifSetHooks(nil, func(m *sync.Mutex) { s.LockWait(m) })
	} else {
		skiplist.VerifSetHooks(s.Yield, func(m *sync.Mutex) { s.LockWait(m) })
	}
	nitro.VerifSetHook(func(point int, arg uint64) {
		if point == nitro.VerifPtCloseRetire {
			c.retireMu.Lock()
			c.retire[uint32(arg)]++
			c.retireMu.Unlock()
		}
		s.Yield(point)
	})
}

func (c *CW) removeHooks() {
	skiplist.VerifSetHooks(nil, nil)
	nitro.VerifSetHook(nil)
	if c.s != nil {
		c.Preempts += c.s.Preempts
		c.Steps += c.s.Steps
	}
}

// countRetire is used outside scheduler runs (sequential closes by the main goroutine).
func (c *CW) hookSequential() {
	nitro.VerifSetHook(func(point int, arg uint64) {
		if point == nitro.VerifPtCloseRetire {
			c.retireMu.Lock()
			c.retire[uint32(arg)]++
			c.retireMu.Unlock()
		}
	})
}

type wOp struct {
	kind int // lin.Insert (Put2), lin.Delete, lin.Lookup (GetNode)
	key  string
	val  string
}

func (o wOp) String() string {
	switch o.kind {
	case lin.Insert:
		return "P" + o.key + o.val
	case lin.Delete:
		return "D" + o.key
	}
	return "G" + o.key
}

func (c *CW) drawWriterScripts(t *rapid.T, nth, maxOps int, keys []string, delBias int) [][]wOp {
	scripts := make([][]wOp, nth)
	vn := 0
	for i := range scripts {
		n := rapid.IntRange(1, maxOps).Draw(t, "oplen")
		for j := 0; j < n; j++ {
			k := keys[rapid.IntRange(0, len(keys)-1).Draw(t, "key")]
			var o wOp
			switch x := rapid.IntRange(0, 9).Draw(t, "op"); {
			case x < 4-delBias:
				vn++
				o = wOp{kind: lin.Insert, key: k}
				if c.kv {
					o.val = fmt.Sprintf("r%dt%dv%d", c.rounds, i, vn)
				}
			case x < 8:
				o = wOp{kind: lin.Delete, key: k}
			default:
				o = wOp{kind: lin.Lookup, key: k}
			}
			scripts[i] = append(scripts[i], o)
		}
	}
	return scripts
}

// writerRound runs the scripts (thread i uses writer i) under a drawn schedule and
// returns the stamped operations.
func (c *CW) writerRound(scripts [][]wOp, picker sched.Picker, extra func(s *sched.Sched)) []lin.Op {
	s := sched.New(picker)
	var ops []lin.Op
	for i := range scripts {
		script := scripts[i]
		w := c.ws[i]
		s.Go(func(th *sched.Thread) {
			for _, o := range script {
				th.InOp = true
				op := lin.Op{Th: th.ID, Kind: o.kind, Key: o.key, Call: s.Tick()}
				switch o.kind {
				case lin.Insert:
					n := w.Put2(c.itemFor(o.key, o.val))
					op.Ok = n != nil
					op.Val = o.val
					if n != nil {
						op.Node = c.nid(n)
					}
				case lin.Delete:
					op.Ok = w.Delete(c.itemFor(o.key, "del"))
				case lin.Lookup:
					n := w.GetNode(c.itemFor(o.key, "get"))
					op.Ok = n != nil
					// with user-managed memory the node may be reclaimed as soon as GetNode returns
					// (the caller holds no barrier token): only its presence is observed there
					if n != nil && c.kv && !c.mm {
						_, v := nitro.KVFromBytes(nitro.VerifItemFromNode(n).Bytes())
						op.Val = string(v)
					}
				}
				op.Ret = s.Tick()
				ops = append(ops, op)
				th.InOp = false
				s.Yield(0)
			}
		})
	}
	if extra != nil {
		extra(s)
	}
	c.installHooks(s)
	fail := s.Run()
	c.removeHooks()
	if fail != nil {
		c.abandon()
		c.f.failf(c.failSig(fail), "%s%v\nops so far: %v", c.describeFault(fail), fail, ops)
	}
	c.rounds++
	return ops
}

func (c *CW) failSig(fail *sched.Failure) string {
	type addrer interface{ Addr() uintptr }
	if a, ok := fail.Value.(addrer); ok && c.arena != nil {
		lo, hi := c.arena.Range()
		if a.Addr() >= lo && a.Addr() < hi {
			return "use-after-free"
		}
	}
	if fail.Kind == "panic" && c.mm {
		return "panic-with-user-memory"
	}
	return "nitro-" + fail.Kind
}

func (c *CW) describeFault(fail *sched.Failure) string {
	type addrer interface{ Addr() uintptr }
	if a, ok := fail.Value.(addrer); ok && c.arena != nil {
		return "fault address " + c.arena.Describe(a.Addr()) + "\n"
	}
	return ""
}

func (c *CW) scan(snap *nitro.Snapshot) []string {
	it := snap.NewIterator()
	if it == nil {
		c.f.failf("iterator-nil", "NewIterator on an open snapshot returned nil")
	}
	defer it.Close()
	var out []string
	for it.SeekFirst(); it.Valid(); it.Next() {
		out = append(out, string(it.Get()))
		if len(out) > 100000 {
			break
		}
	}
	return out
}

// snapshot seals the epoch, checks the round's history for linearizability against
// the snapshot's content and Count, and updates the reference state.
func (c *CW) snapshot(ops []lin.Op, keys []string) *snapInfo {
	snap, err := c.db.NewSnapshot()
	if err != nil {
		c.f.failf("newsnapshot-error", "%v", err)
	}
	sn, _ := nitro.VerifSnapshotSn(snap)
	si := &snapInfo{snap: snap, sn: sn, refs: 1}
	c.snaps = append(c.snaps, si) // registered first so that teardown can always release it
	content := c.scan(snap)
	si.content = content
	if int64(len(content)) != snap.Count() {
		c.f.failf("snapshot-count", "snapshot Count()=%d but its scan has %d items %q\nops: %v", snap.Count(), len(content), content, ops)
	}
	present := map[string]string{}
	for i, it := range content {
		k := c.keyOf([]byte(it))
		if _, dup := present[k]; dup {
			c.f.failf("snapshot-duplicate-key", "snapshot after the round contains key %q twice: %q\nops: %v", k, content, ops)
		}
		if i > 0 && c.keyOf([]byte(content[i-1])) >= k {
			c.f.failf("snapshot-order", "snapshot scan not in key order: %q", content)
		}
		present[k] = it
	}
	ts := int64(1 << 40)
	all := append([]lin.Op(nil), ops...)
	for _, k := range keys {
		it, ok := present[k]
		o := lin.Op{Th: 98, Kind: lin.Final, Key: k, Ok: ok, Call: ts, Ret: ts + 1}
		if ok && c.kv {
			_, v := nitro.KVFromBytes([]byte(it))
			o.Val = string(v)
		}
		all = append(all, o)
		ts += 2
	}
	initial := map[string]string{}
	for k, it := range c.state {
		v := ""
		if c.kv {
			_, vb := nitro.KVFromBytes([]byte(it))
			v = string(vb)
		}
		initial[k] = v
	}
	if bad, ok := lin.Check(all, initial); !ok {
		c.f.failf("not-linearizable", "round is not linearizable with respect to the set semantics (snapshot content %q)\n  %s", content, bad)
	}
	for k := range c.state {
		if !contains(keys, k) {
			// keys outside the round's key space must be untouched
			if _, ok := present[k]; !ok {
				c.f.failf("snapshot-lost-key", "key %q, not touched in the round, vanished from the snapshot", k)
			}
		}
	}
	c.state = present
	// overlap statistics
	for i, a := range ops {
		for _, b := range ops[i+1:] {
			if a.Key == b.Key && a.Th != b.Th && a.Call < b.Ret && b.Call < a.Ret {
				c.overlaps++
			}
		}
	}
	return si
}

func contains(s []string, x string) bool {
	for _, y := range s {
		if y == x {
			return true
		}
	}
	return false
}

type dumpStats struct {
	NodeCount   int64 `json:"node_count"`
	SoftDeletes int64 `json:"soft_deletes"`
}

func (c *CW) stats() dumpStats {
	var d dumpStats
	json.Unmarshal([]byte(c.db.DumpStats()), &d)
	return d
}

func waitLimit() time.Duration {
	if processFailed {
		return 2 * time.Second
	}
	return 30 * time.Second
}

// closeAllAndCollect releases every reference the harness holds (sequentially), forces a
// pass and requires: frontier == last snapshot, every snapshot retired once, statistics
// collapse to the live items.
func (c *CW) closeAllAndCollect(checkRetire bool) {
	c.hookSequential()
	defer nitro.VerifSetHook(nil)
	retiring := 0
	for _, si := range c.snaps {
		for si.refs > 0 {
			si.snap.Close()
			si.refs--
			if si.refs == 0 {
				retiring++
			}
		}
	}
	how := "GC() was called"
	if c.finalCloseOnly {
		// "the final Close triggers one": no explicit GC(). The last retiring Close of the history runs here,
		// sequentially, after every other call has returned; if the round released everything itself, a fresh
		// snapshot is created and closed so that there is such a Close.
		how = "the final Close has returned (no explicit GC())"
		if retiring == 0 {
			s, err := c.db.NewSnapshot()
			if err != nil {
				c.f.failf("setup", "NewSnapshot: %v", err)
			}
			s.Close()
		}
	} else {
		c.db.GC()
	}
	want := c.db.GetCurrSn() - 1
	if got := c.db.GetLastGCSn(); got != want {
		c.f.failf("gc-frontier", "every snapshot is closed and %s, but GetLastGCSn()=%d, last snapshot is %d", how, got, want)
	}
	if n := len(c.db.GetSnapshots()); n != 0 {
		c.f.failf("snapshots-left", "every reference was closed but GetSnapshots() still lists %d snapshots", n)
	}
	deadline := time.Now().Add(waitLimit())
	for {
		d := c.stats()
		if d.NodeCount == int64(len(c.state)) && d.SoftDeletes == 0 {
			break
		}
		if time.Now().After(deadline) {
			sig := "gc-incomplete"
			if d.NodeCount < int64(len(c.state)) {
				sig = "gc-premature"
			}
			c.f.failf(sig, "every snapshot closed and collected (frontier %d) but node_count=%d soft_deletes=%d with %d live items", want, d.NodeCount, d.SoftDeletes, len(c.state))
		}
		time.Sleep(50 * time.Microsecond)
	}
	if checkRetire {
		c.retireMu.Lock()
		defer c.retireMu.Unlock()
		for _, si := range c.snaps {
			if n := c.retire[si.sn]; n != 1 {
				c.f.failf("retired-not-once", "snapshot %d was retired %d times", si.sn, n)
			}
		}
	}
}

// shutdown closes the instance under a watchdog and audits the allocator.
func (c *CW) shutdown() {
	done := make(chan struct{})
	go func() {
		defer func() { recover() }()
		c.db.Close()
		close(done)
	}()
	select {
	case <-done:
	case <-time.After(waitLimit()):
		c.abandon()
		c.f.failf("close-hangs", "Nitro.Close() did not return within the watchdog")
	}
	c.closed = true
	if c.arena != nil {
		rep := c.arena.Report()
		c.arena.Release()
		c.arena = nil
		if !rep.Clean() {
			sig := "alloc-leak"
			if len(rep.Bad) > 0 {
				sig = "bad-free"
			} else if len(rep.StaleWrites) > 0 {
				sig = "stale-write"
			}
			c.f.failf(sig, "allocator report after Close: %v", rep)
		}
	}
}

func (c *CW) abandon() {
	c.closed = true
	if c.arena != nil {
		c.arena.Abandon()
		c.arena = nil
	}
}

// teardown: best effort on failure paths.
func (c *CW) teardown() {
	skiplist.VerifSetHooks(nil, nil)
	nitro.VerifSetHook(nil)
	if c.closed {
		return
	}
	c.closed = true
	ok := func() (ok bool) {
		defer func() {
			if r := recover(); r != nil {
				ok = false
			}
		}()
		for _, si := range c.snaps {
			for si.refs > 0 {
				si.snap.Close()
				si.refs--
			}
		}
		done := make(chan struct{})
		go func() {
			defer func() { recover() }()
			c.db.Close()
			close(done)
		}()
		select {
		case <-done:
			return true
		case <-time.After(500 * time.Millisecond):
			return false
		}
	}()
	if c.arena != nil {
		if ok {
			c.arena.Release()
		} else {
			c.arena.Abandon()
		}
		c.arena = nil
	}
}

func sortedKeysOf(m map[string]string) []string {
	out := make([]string, 0, len(m))
	for k := range m {
		out = append(out, k)
	}
	sort.Strings(out)
	return out
}

var _ = unsafe.Pointer(nil)
