package conccheck

import (
	"github.com/couchbase/nitro"
	"testing"

	"pgregory.net/rapid"

	"verif/lib/ev"
	"verif/lib/lin"
	"verif/lib/sched"
)

// C06 (concurrent): no order of closing snapshots from any goroutines and no
// contention between writers deleting the same key strands garbage permanently.
// Rounds of contended deletes over keys born in earlier epochs, snapshots, then the
// references are released by concurrently running closer threads; finally everything
// must collapse to the live items after one GC().
func TestC06Conc(t *testing.T) {
	st := ev.Get("C06", "TestC06Conc")
	rapid.Check(t, func(t *rapid.T) {
		sched.SeedRand(t)
		f := &failer{t: t, st: st}
		nth := rapid.IntRange(2, 4).Draw(t, "threads")
		mm := rapid.IntRange(0, 3).Draw(t, "mm") == 0
		c := newCW(f, false, mm, nth)
		defer c.teardown()
		keys := []string{"a", "b", "c", "d", "e"}[:rapid.IntRange(2, 5).Draw(t, "nkeys")]
		f.logf("c06c threads=%d keys=%v mm=%v", nth, keys, mm)
		// epoch 1: populate sequentially
		for i, k := range keys {
			if c.ws[i%nth].Put2([]byte(k)) != nil {
				c.state[k] = k
			}
		}
		c.snapshot(nil, nil)
		rounds := rapid.IntRange(1, 3).Draw(t, "rounds")
		contended := false
		for r := 0; r < rounds; r++ {
			scripts := c.drawWriterScripts(t, nth, 4, keys, 2)
			// in user-memory mode two deleters of one current-epoch key are a separate finding (C04/C07): keep
			// deletes of a key to one thread per round there unless the key is older than the round
			picker, pdesc := sched.DrawPicker(t, nth, 600)
			f.logf("round%d scripts=%v sched=%s", r, scripts, pdesc)
			ops := c.writerRound(scripts, picker, nil)
			// two successful-or-not deletes of one key overlapped?
			for i, a := range ops {
				for _, b := range ops[i+1:] {
					if a.Kind == lin.Delete && b.Kind == lin.Delete && a.Key == b.Key && a.Th != b.Th && a.Call < b.Ret && b.Call < a.Ret {
						contended = true
					}
				}
			}
			c.snapshot(ops, keys)
		}
		// concurrent closers
		c.finalCloseOnly = rapid.Bool().Draw(t, "finalcloseonly")
		c.coarse = rapid.Bool().Draw(t, "coarse")
		// the windows this property is about: Open between test and add, Close at retirement, GC around its try-lock
		c.hot = sched.DrawHotPlans(t, []int{nitro.VerifPtOpenTested, nitro.VerifPtCloseRetire, nitro.VerifPtGCBeforeTryLock, nitro.VerifPtGCPassDone}, 4, 30)
		f.logf("finalCloseOnly=%v coarse=%v hot=%s", c.finalCloseOnly, c.coarse, sched.FmtHot(c.hot))
		_, _, _ = runRefRound(t, c, f)
		c.closeAllAndCollect(true)
		c.shutdown()
		st.Case(f.desc(), contended || len(c.snaps) >= 3)
		st.AddExtra("sched-steps", int64(c.Steps))
		if contended {
			st.Class("contended-deletes", 1)
		}
	})
}
