package conccheck

import (
	"fmt"
	"testing"

	"pgregory.net/rapid"

	"verif/lib/ev"
	"verif/lib/sched"
)

// C04 layer B: real nitro with user-managed memory on the guard allocator
// (quarantine mode), controlled writers and snapshot readers, free-running
// collection and free workers. Oracle: no stale access (faults, zeroed reads
// showing as wrong scans), no bad free, nothing leaked after Close; snapshot
// scans stay exact while nodes are unlinked and freed around the readers.
func TestC04B(t *testing.T) {
	rapid.Check(t, writersReadersProp(ev.Get("C04", "TestC04B"), true))
}

// C01 under concurrency, schedule owned: the same rounds of controlled writers and snapshot readers
// (mostly Go-managed memory, always >= 1 reader). Judged: every concurrent scan of a held snapshot equals
// its content at creation, and every snapshot sealed after a round has Count() == its scan.
func TestC01Conc(t *testing.T) {
	rapid.Check(t, writersReadersProp(ev.Get("C01", "TestC01Conc"), false))
}

func writersReadersProp(st *ev.Stats, userMemory bool) func(t *rapid.T) {
	return func(t *rapid.T) {
		sched.SeedRand(t)
		f := &failer{t: t, st: st}
		nw := rapid.IntRange(2, 3).Draw(t, "writers")
		nr := rapid.IntRange(0, 2).Draw(t, "readers")
		kv := rapid.Bool().Draw(t, "kv")
		mm := userMemory
		if !userMemory {
			nr = rapid.IntRange(1, 2).Draw(t, "readers1")
			mm = rapid.IntRange(0, 3).Draw(t, "mm") == 0
		}
		c := newCW(f, kv, mm, nw)
		defer c.teardown()
		keys := []string{"a", "b", "c", "d"}[:rapid.IntRange(2, 4).Draw(t, "nkeys")]
		f.logf("c04b writers=%d readers=%d kv=%v keys=%v", nw, nr, kv, keys)
		for i, k := range keys {
			if rapid.Bool().Draw(t, "prekey") {
				if c.ws[i%nw].Put2(c.itemFor(k, "init")) != nil {
					c.state[k] = string(c.itemFor(k, "init"))
				}
			}
		}
		c.snapshot(nil, nil)
		rounds := rapid.IntRange(1, 3).Draw(t, "rounds")
		freesBefore := int64(0)
		readScans := 0
		for r := 0; r < rounds; r++ {
			scripts := c.drawWriterScripts(t, nw, 4, keys, 1)
			picker, pdesc := sched.DrawPicker(t, nw+nr, 800)
			// readers: each holds its own reference on a drawn open snapshot
			type rd struct {
				si   *snapInfo
				rate int
			}
			var rds []rd
			var open []*snapInfo
			for _, si := range c.snaps {
				if si.refs > 0 {
					open = append(open, si)
				}
			}
			for i := 0; i < nr; i++ {
				si := open[rapid.IntRange(0, len(open)-1).Draw(t, "rsnap")]
				if !si.snap.Open() {
					f.failf("open-result", "Open of a held snapshot failed")
				}
				rds = append(rds, rd{si, []int{0, 1, 2}[rapid.IntRange(0, 2).Draw(t, "rate")]})
			}
			f.logf("round%d scripts=%v readers=%d sched=%s", r, scripts, len(rds), pdesc)
			ops := c.writerRound(scripts, picker, func(s *sched.Sched) {
				for _, x := range rds {
					x := x
					s.Go(func(th *sched.Thread) {
						for pass := 0; pass < 2; pass++ {
							th.InOp = true
							it := x.si.snap.NewIterator()
							if it == nil {
								panic("READER: NewIterator returned nil on a held snapshot")
							}
							if x.rate > 0 {
								it.SetRefreshRate(x.rate)
							}
							var got []string
							for it.SeekFirst(); it.Valid(); it.Next() {
								got = append(got, string(it.Get()))
								s.Yield(0)
								if len(got) > 1000 {
									break
								}
							}
							it.Close()
							th.InOp = false
							if fmt.Sprint(got) != fmt.Sprint(x.si.content) {
								panic(fmt.Sprintf("READER: scan of snapshot %d (refresh %d) returned %q, content at creation %q", x.si.sn, x.rate, got, x.si.content))
							}
							readScans++
							s.Yield(0)
						}
					})
				}
			})
			for _, x := range rds {
				x.si.snap.Close()
			}
			c.snapshot(ops, keys)
			// retire older snapshots in a drawn order so that the workers unlink and free while later rounds run
			if rapid.Bool().Draw(t, "closeold") {
				idx := rapid.Permutation(seqInts(len(c.snaps)-1)).Draw(t, "closeorder")
				for _, j := range idx {
					si := c.snaps[j]
					for si.refs > 0 {
						si.snap.Close()
						si.refs--
					}
				}
			}
			if c.arena != nil && c.arena.BadCount() > 0 {
				rep := c.arena.Report()
				c.abandon()
				f.failf("bad-free", "allocator recorded a bad free: %v", rep)
			}
		}
		_ = freesBefore
		frees := int64(0)
		if c.arena != nil {
			frees = c.arena.Frees
		}
		c.closeAllAndCollect(false)
		c.shutdown()
		if userMemory {
			st.Case(f.desc(), frees > 0 && c.Preempts > 0 && (c.overlaps > 0 || readScans > 0))
		} else {
			st.Case(f.desc(), readScans > 0 && c.Preempts > 0 && c.overlaps > 0)
		}
		st.AddExtra("blocks-freed-before-close", frees)
		st.AddExtra("concurrent-reader-scans", int64(readScans))
		st.AddExtra("sched-steps", int64(c.Steps))
	}
}

func seqInts(n int) []int {
	s := make([]int, n)
	for i := range s {
		s[i] = i
	}
	return s
}
