package conccheck

import (
	"os"
	"testing"

	"verif/lib/ev"
)

func TestMain(m *testing.M) {
	code := m.Run()
	ev.Flush()
	os.Exit(code)
}
