package conccheck

import (
	"fmt"
	"os"
	"path/filepath"
	"testing"

	"pgregory.net/rapid"

	"verif/lib/ev"
	"verif/lib/lin"
	"verif/lib/sched"
)

// C03: concurrent writers are linearizable with respect to the set semantics.
// Rounds of 2-4 controlled writer threads over 2-3 keys; after each round a
// snapshot is taken and the round's stamped history plus the snapshot content is
// checked with porcupine; state carries over (keys born and deleted in earlier epochs).
func TestC03(t *testing.T) {
	st := ev.Get("C03", "TestC03")
	rapid.Check(t, func(t *rapid.T) {
		sched.SeedRand(t)
		f := &failer{t: t, st: st}
		kv := rapid.Bool().Draw(t, "kv")
		nth := rapid.IntRange(2, 4).Draw(t, "threads")
		restored := rapid.IntRange(0, 3).Draw(t, "restored") == 0
		nw := nth
		if restored {
			nw = 0 // writers are created after the restore
		}
		// user-managed memory in a third of the cases: items then start out as whatever the allocator hands out
		mm := !restored && rapid.IntRange(0, 2).Draw(t, "mm") == 0
		c := newCW(f, kv, mm, nw)
		defer c.teardown()
		nkeys := rapid.IntRange(2, 3).Draw(t, "nkeys")
		keys := []string{"a", "b", "c"}[:nkeys]
		rounds := rapid.IntRange(1, 3).Draw(t, "rounds")
		f.logf("c03 kv=%v threads=%d keys=%v restored=%v mm=%v", kv, nth, keys, restored, mm)
		if restored {
			var items [][]byte
			for _, k := range append([]string{"0", "z"}, keys...) {
				if rapid.Bool().Draw(t, "stored") {
					items = append(items, c.itemFor(k, "disk"))
				}
			}
			dir := filepath.Join(os.Getenv("VERIF_TMP"), fmt.Sprintf("c03-%d-%d", os.Getpid(), rapid.IntRange(0, 1<<30).Draw(t, "dirid")))
			os.RemoveAll(dir)
			defer os.RemoveAll(dir)
			c.restoreInto(items, dir, nth)
		}
		overlapRounds := 0
		for r := 0; r < rounds; r++ {
			scripts := c.drawWriterScripts(t, nth, 4, keys, 0)
			picker, pdesc := sched.DrawPicker(t, nth, 600)
			f.logf("round%d scripts=%v sched=%s", r, scripts, pdesc)
			before := c.overlaps
			pre := c.Preempts
			ops := c.writerRound(scripts, picker, nil)
			c.snapshot(ops, keys)
			if c.overlaps > before && c.Preempts > pre {
				overlapRounds++
			}
			// keep at most two snapshots open; close older ones (drawn) so that later rounds see collected and uncollected history
			if len(c.snaps) > 1 && rapid.Bool().Draw(t, "closeold") {
				for _, si := range c.snaps[:len(c.snaps)-1] {
					for si.refs > 0 {
						si.snap.Close()
						si.refs--
					}
				}
			}
		}
		c.closeAllAndCollect(false)
		c.shutdown()
		cls := "fresh-instance"
		if restored {
			cls = "restored-instance"
		}
		st.Case(f.desc(), overlapRounds > 0, fmt.Sprintf("rounds-%d", rounds), cls)
		st.AddExtra("sched-steps", int64(c.Steps))
		st.AddExtra("preemptions", int64(c.Preempts))
		st.AddExtra("overlapping-op-pairs", int64(c.overlaps))
		_ = lin.Insert
	})
}
