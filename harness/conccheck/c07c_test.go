package conccheck

import (
	"testing"

	"pgregory.net/rapid"

	"verif/lib/ev"
	"verif/lib/sched"
)

// C07 (concurrent histories): with user-managed memory every block is released
// exactly once by Close, also when writers race on the same keys (rejected Puts
// that lost a race, contended deletes) and sessions terminate concurrently.
func TestC07Conc(t *testing.T) {
	st := ev.Get("C07", "TestC07Conc")
	rapid.Check(t, func(t *rapid.T) {
		sched.SeedRand(t)
		f := &failer{t: t, st: st}
		nth := rapid.IntRange(2, 4).Draw(t, "threads")
		kv := rapid.Bool().Draw(t, "kv")
		c := newCW(f, kv, true, nth)
		defer c.teardown()
		keys := []string{"a", "b", "c"}[:rapid.IntRange(1, 3).Draw(t, "nkeys")]
		f.logf("c07c threads=%d kv=%v keys=%v", nth, kv, keys)
		rounds := rapid.IntRange(1, 3).Draw(t, "rounds")
		racedPuts := false
		for r := 0; r < rounds; r++ {
			scripts := c.drawWriterScripts(t, nth, 4, keys, rapid.IntRange(-2, 2).Draw(t, "delbias"))
			picker, pdesc := sched.DrawPicker(t, nth, 600)
			f.logf("round%d scripts=%v sched=%s", r, scripts, pdesc)
			ops := c.writerRound(scripts, picker, nil)
			for i, a := range ops {
				for _, b := range ops[i+1:] {
					if a.Kind == 0 && b.Kind == 0 && a.Key == b.Key && a.Th != b.Th && a.Call < b.Ret && b.Call < a.Ret && a.Ok != b.Ok {
						racedPuts = true
					}
				}
			}
			c.snapshot(ops, keys)
			if c.arena.BadCount() > 0 {
				rep := c.arena.Report()
				c.abandon()
				f.failf("bad-free", "allocator recorded a bad free: %v", rep)
			}
			if rapid.Bool().Draw(t, "closeold") {
				for _, si := range c.snaps[:len(c.snaps)-1] {
					for si.refs > 0 {
						si.snap.Close()
						si.refs--
					}
				}
			}
		}
		c.closeAllAndCollect(false)
		c.shutdown()
		st.Case(f.desc(), racedPuts || c.overlaps > 0)
		if racedPuts {
			st.Class("put-lost-a-race", 1)
		}
		st.AddExtra("sched-steps", int64(c.Steps))
	})
}
