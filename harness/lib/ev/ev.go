// Package ev collects per-process evidence counters for a check and writes
// them to the file named by VERIF_STATS (JSON, rewritten atomically).
package ev

import (
	"encoding/json"
	"hash/fnv"
	"os"
	"sort"
	"strconv"
	"strings"
	"sync"
)

type Stats struct {
	Property   string           `json:"property"`
	Test       string           `json:"test"`
	Cases      int64            `json:"cases"`
	Nontrivial int64            `json:"nontrivial"`
	Classes    map[string]int64 `json:"classes"`
	Hashes     []uint64         `json:"hashes"`
	Samples    []string         `json:"samples"`
	Excluded   map[string]int64 `json:"excluded"`
	Extra      map[string]int64 `json:"extra"`
	Failed     bool             `json:"failed"`
	FailSig    string           `json:"fail_sig"`
	FailMsg    string           `json:"fail_msg"`
	Known      []string         `json:"known"`
	Exhaustive bool             `json:"exhaustive"`
	hashSet    map[uint64]struct{}
	maxSamples int
	sinceFlush int
	frozen     bool
}

var (
	mu  sync.Mutex
	cur = map[string]*Stats{}
)

// Get returns the collector for a test function.
func Get(property, test string) *Stats {
	mu.Lock()
	defer mu.Unlock()
	k := property + "/" + test
	s := cur[k]
	if s == nil {
		s = &Stats{Property: property, Test: test, Classes: map[string]int64{}, Excluded: map[string]int64{},
			Extra: map[string]int64{}, hashSet: map[uint64]struct{}{}, maxSamples: 6}
		cur[k] = s
	}
	return s
}

func Hash(s string) uint64 {
	h := fnv.New64a()
	h.Write([]byte(s))
	return h.Sum64()
}

// Case records one generated case. desc is the canonical rendering of the case;
// it is hashed for distinctness when the case is non-trivial. Nothing is
// counted after the first failure in the process (shrink/confirmation runs).
func (s *Stats) Case(desc string, nontrivial bool, classes ...string) {
	mu.Lock()
	defer mu.Unlock()
	if s.frozen {
		return
	}
	s.Cases++
	for _, c := range classes {
		s.Classes[c]++
	}
	if nontrivial {
		s.Nontrivial++
		h := Hash(desc)
		if _, ok := s.hashSet[h]; !ok {
			if len(s.hashSet) < 4000000 {
				s.hashSet[h] = struct{}{}
			}
			if len(s.Samples) < s.maxSamples {
				if len(desc) > 1500 {
					desc = desc[:1500] + "…"
				}
				s.Samples = append(s.Samples, desc)
			}
		}
	}
	s.sinceFlush++
	if s.sinceFlush >= 2000 {
		s.sinceFlush = 0
		flushLocked()
	}
}

// Frozen reports whether counting has stopped (a failure was seen).
func (s *Stats) Frozen() bool {
	mu.Lock()
	defer mu.Unlock()
	return s.frozen
}

func (s *Stats) Class(c string, n int64) {
	mu.Lock()
	defer mu.Unlock()
	if s.frozen {
		return
	}
	s.Classes[c] += n
}

func (s *Stats) AddExtra(k string, n int64) {
	mu.Lock()
	defer mu.Unlock()
	if s.frozen {
		return
	}
	s.Extra[k] += n
}

func (s *Stats) Exclude(what string) {
	mu.Lock()
	defer mu.Unlock()
	if s.frozen {
		return
	}
	s.Excluded[what]++
}

// KnownFinding records that a listed finding was reproduced (signature).
func (s *Stats) KnownFinding(sig string) {
	mu.Lock()
	defer mu.Unlock()
	for _, k := range s.Known {
		if k == sig {
			return
		}
	}
	s.Known = append(s.Known, sig)
}

// Fail freezes the counters at the first failure and records its signature.
func (s *Stats) Fail(sig, msg string) {
	mu.Lock()
	defer mu.Unlock()
	if !s.frozen {
		s.frozen = true
	}
	s.Failed = true
	// the last (most shrunk) failure wins
	s.FailSig = sig
	if len(msg) > 4000 {
		msg = msg[:4000]
	}
	s.FailMsg = msg
	flushLocked()
}

func (s *Stats) SetExhaustive(b bool) {
	mu.Lock()
	defer mu.Unlock()
	s.Exhaustive = b
}

func flushLocked() {
	path := os.Getenv("VERIF_STATS")
	if path == "" {
		return
	}
	path = strings.Replace(path, "%p", strconv.Itoa(os.Getpid()), 1)
	var all []*Stats
	keys := make([]string, 0, len(cur))
	for k := range cur {
		keys = append(keys, k)
	}
	sort.Strings(keys)
	for _, k := range keys {
		s := cur[k]
		s.Hashes = s.Hashes[:0]
		for h := range s.hashSet {
			s.Hashes = append(s.Hashes, h)
		}
		sort.Slice(s.Hashes, func(i, j int) bool { return s.Hashes[i] < s.Hashes[j] })
		all = append(all, s)
	}
	b, err := json.Marshal(all)
	if err != nil {
		return
	}
	tmp := path + ".tmp"
	if os.WriteFile(tmp, b, 0644) == nil {
		os.Rename(tmp, path)
	}
}

// Flush writes the stats file; call from TestMain after m.Run().
func Flush() {
	mu.Lock()
	defer mu.Unlock()
	flushLocked()
}
