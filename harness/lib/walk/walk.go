// Package walk is the structural predicate of C14: it walks every level of a
// skiplist through the verif accessors (no yield points, no helping) and compares
// the structure with the statistics.
package walk

import (
	"fmt"
	"unsafe"

	"github.com/couchbase/nitro/skiplist"
)

type Result struct {
	Level0Linked   int // nodes linked at level 0 (marked or not), sentinels excluded
	Live           int // unmarked nodes at level 0
	MarkedLinked   int // marked nodes still linked at level 0
	PerLevel       [skiplist.MaxLevel + 1]int64
	Bytes          int64 // sum of Size(n) over level-0 linked nodes
	MaxHeight      int
	UpperMarked    int // marked nodes still linked at some level > 0
	LiveNodes      []*skiplist.Node
	AllLinkedNodes map[*skiplist.Node]bool // nodes reachable from head at any level (sentinels excluded)
}

const maxSteps = 5000000

// Walk checks the structural invariants that must hold whenever no operation is
// in flight. cmp orders items; itemSize is the skiplist's item size function.
func Walk(s *skiplist.Skiplist, cmp skiplist.CompareFn) (*Result, error) {
	head, tail := s.HeadNode(), s.TailNode()
	res := &Result{AllLinkedNodes: map[*skiplist.Node]bool{}}
	top := s.VerifLevel()
	var below map[*skiplist.Node]int // position of each unmarked node in the level below
	var chains [skiplist.MaxLevel + 1][]*skiplist.Node
	for l := 0; l <= skiplist.MaxLevel; l++ {
		var chain []*skiplist.Node
		cur, hdel := head.VerifNext(l)
		if hdel {
			return res, fmt.Errorf("level %d: head is marked deleted", l)
		}
		steps := 0
		var prev *skiplist.Node
		for cur != tail {
			if cur == nil {
				return res, fmt.Errorf("level %d: chain ends in nil instead of the tail sentinel after %d nodes", l, steps)
			}
			if steps++; steps > maxSteps {
				return res, fmt.Errorf("level %d: more than %d steps (cycle?)", l, maxSteps)
			}
			if cur == head {
				return res, fmt.Errorf("level %d: chain returns to head (cycle)", l)
			}
			if cur.Level() < l {
				return res, fmt.Errorf("level %d: node %p of height %d is linked above its height", l, cur, cur.Level())
			}
			res.AllLinkedNodes[cur] = true
			next, marked := cur.VerifNext(l)
			if l == 0 {
				res.Level0Linked++
				h := cur.Level()
				if h > skiplist.MaxLevel {
					return res, fmt.Errorf("node %p reports height %d > MaxLevel", cur, h)
				}
				res.PerLevel[h]++
				res.Bytes += int64(s.Size(cur))
				if h > res.MaxHeight {
					res.MaxHeight = h
				}
				if marked {
					res.MarkedLinked++
				}
			} else if marked {
				res.UpperMarked++
			}
			if !marked {
				if prev != nil && cmp(prev.Item(), cur.Item()) >= 0 {
					return res, fmt.Errorf("level %d: chain not strictly increasing at node %p", l, cur)
				}
				prev = cur
				chain = append(chain, cur)
			}
			cur = next
		}
		if l > top && len(chain) > 0 {
			return res, fmt.Errorf("level %d has %d nodes but the list level is %d", l, len(chain), top)
		}
		// subsequence of the level below
		if l > 0 {
			last := -1
			for _, n := range chain {
				p, ok := below[n]
				if !ok {
					return res, fmt.Errorf("level %d: unmarked node %p is not in the unmarked chain of level %d", l, n, l-1)
				}
				if p <= last {
					return res, fmt.Errorf("level %d: order of node %p disagrees with level %d", l, n, l-1)
				}
				last = p
			}
		}
		below = make(map[*skiplist.Node]int, len(chain))
		for i, n := range chain {
			below[n] = i
		}
		chains[l] = chain
		if l == 0 {
			res.Live = len(chain)
			res.LiveNodes = chain
		}
	}
	// every live node is linked (unmarked) at all levels up to its height
	inLevel := make([]map[*skiplist.Node]bool, skiplist.MaxLevel+1)
	for l := 1; l <= res.MaxHeight; l++ {
		inLevel[l] = map[*skiplist.Node]bool{}
		for _, n := range chains[l] {
			inLevel[l][n] = true
		}
	}
	for _, n := range chains[0] {
		for l := 1; l <= n.Level(); l++ {
			if !inLevel[l][n] {
				return res, fmt.Errorf("live node %p of height %d is not linked (unmarked) at level %d", n, n.Level(), l)
			}
		}
	}
	return res, nil
}

// CompareStats checks the raw statistics against what the walk measured.
func (r *Result) CompareStats(st skiplist.VerifRawStats) error {
	var total int64
	for h, c := range st.LevelNodesCount {
		total += c
		if c != r.PerLevel[h] {
			return fmt.Errorf("statistics count %d nodes of height %d, the walk finds %d", c, h, r.PerLevel[h])
		}
	}
	if total != int64(r.Level0Linked) {
		return fmt.Errorf("statistics node count %d, the walk finds %d nodes linked at level 0", total, r.Level0Linked)
	}
	if st.SoftDeletes != int64(r.MarkedLinked) {
		return fmt.Errorf("statistics soft deletes %d, the walk finds %d marked nodes still linked", st.SoftDeletes, r.MarkedLinked)
	}
	if st.UsedBytes != r.Bytes {
		return fmt.Errorf("statistics memory in use %d, the walk measures %d", st.UsedBytes, r.Bytes)
	}
	return nil
}

var _ = unsafe.Pointer(nil)
