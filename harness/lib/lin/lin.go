// Package lin checks generated concurrent histories of set operations for
// linearizability with porcupine (per-key partitioning).
package lin

import (
	"fmt"
	"sort"

	"github.com/anishathalye/porcupine"
)

const (
	Insert = iota
	Delete
	DeleteNode
	Lookup
	Final // observation after quiescence
)

type Op struct {
	Th        int
	Kind      int
	Key       string
	NodeArg   int64 // DeleteNode: the node id passed
	Ok        bool
	Node      int64  // Insert: id of the node created; Lookup: id of the node found (0 unknown)
	Val       string // value stored/observed (key-only comparators): "" = not tracked
	Call, Ret int64
}

func (o Op) String() string {
	k := [...]string{"insert", "delete", "deletenode", "lookup", "final"}[o.Kind]
	s := fmt.Sprintf("T%d %s(%s", o.Th, k, o.Key)
	if o.Kind == DeleteNode {
		s += fmt.Sprintf(",n%d", o.NodeArg)
	}
	s += fmt.Sprintf(")=%v", o.Ok)
	if o.Node != 0 {
		s += fmt.Sprintf("/n%d", o.Node)
	}
	if o.Val != "" {
		s += "/" + o.Val
	}
	return s + fmt.Sprintf("@[%d,%d]", o.Call, o.Ret)
}

type state struct {
	node int64 // 0 = absent; -1 = present, node unknown (initial state)
	val  string
}

type input struct{ op Op }

var model = porcupine.Model{
	Init: func() interface{} { return state{} },
	Step: func(st, in, out interface{}) (bool, interface{}) {
		s := st.(state)
		o := in.(Op)
		switch o.Kind {
		case Insert:
			if s.node == 0 {
				if !o.Ok {
					return false, s
				}
				n := o.Node
				if n == 0 {
					n = -1
				}
				return true, state{node: n, val: o.Val}
			}
			return !o.Ok, s
		case Delete:
			if s.node != 0 {
				return o.Ok, state{}
			}
			return !o.Ok, s
		case DeleteNode:
			if s.node != 0 && (s.node == o.NodeArg || s.node == -1) {
				return o.Ok, state{}
			}
			return !o.Ok, s
		case Lookup, Final:
			if (s.node != 0) != o.Ok {
				return false, s
			}
			if o.Ok && o.Node != 0 && s.node > 0 && o.Node != s.node {
				return false, s
			}
			if o.Ok && o.Val != "" && s.val != "" && o.Val != s.val {
				return false, s
			}
			return true, s
		}
		return false, s
	},
	Equal: func(a, b interface{}) bool { return a.(state) == b.(state) },
}

// Check returns ("", true) when the history is linearizable, else the offending
// key's operations rendered as text. initial gives keys present before the history
// (value = stored value or "").
func Check(ops []Op, initial map[string]string) (string, bool) {
	byKey := map[string][]Op{}
	for _, o := range ops {
		byKey[o.Key] = append(byKey[o.Key], o)
	}
	keys := make([]string, 0, len(byKey))
	for k := range byKey {
		keys = append(keys, k)
	}
	sort.Strings(keys)
	for _, k := range keys {
		var pops []porcupine.Operation
		if v, ok := initial[k]; ok {
			// model the initial presence as an insert that completed before everything
			pops = append(pops, porcupine.Operation{ClientId: 99, Input: Op{Kind: Insert, Key: k, Ok: true, Val: v, Call: -2, Ret: -1}, Call: -2, Return: -1})
		}
		for _, o := range byKey[k] {
			pops = append(pops, porcupine.Operation{ClientId: o.Th, Input: o, Call: o.Call, Return: o.Ret})
		}
		if !porcupine.CheckOperations(model, pops) {
			s := fmt.Sprintf("key %s (initially present: %v):", k, func() bool { _, ok := initial[k]; return ok }())
			for _, o := range byKey[k] {
				s += "\n    " + o.String()
			}
			return s, false
		}
	}
	return "", true
}
