// Package guard is a page-granular guard allocator handed to nitro/skiplist via
// Config.UseMemoryMgmt. Every block lives in its own page run; a freed block is
// poisoned and (trap mode) made inaccessible, and is never reused within a case,
// so every stale access faults and every bad free is recorded.
package guard

import (
	"fmt"
	"sort"
	"sync"
	"sync/atomic"
	"syscall"
	"unsafe"
)

type Mode int

const (
	Trap       Mode = iota // freed blocks are PROT_NONE
	Quarantine             // freed blocks stay mapped, zero filled, checked at the end
)

const pageSize = 4096

type Block struct {
	Addr    uintptr
	Size    int
	span    uintptr
	Live    bool
	Seq     int
	AllocOp int64
	FreeOp  int64
}

type BadFree struct {
	Addr        uintptr
	Kind        string // "double" | "unknown"
	Op          int64
	FirstFreeOp int64
	Seq         int
}

type Arena struct {
	mu     sync.Mutex
	mem    []byte
	base   uintptr
	next   uintptr
	mapped uintptr // [0,mapped) has been made accessible in this case
	mode   Mode
	blocks map[uintptr]*Block
	order  []*Block
	bad    []BadFree
	Op     int64 // current operation id (set by the harness, read atomically)

	Mallocs, Frees int64
	// optional callbacks invoked outside the arena lock
	OnMalloc  func(size int)
	OnFree    func(p unsafe.Pointer)
	exhausted bool
	abandoned bool
}

var (
	poolMu sync.Mutex
	pool   []*Arena
)

const arenaBytes = 8 << 30

// Get returns an arena (from the pool of released ones, or freshly mapped), reset
// for a new case. Release it when the instance using it has been shut down.
func Get(mode Mode) *Arena {
	poolMu.Lock()
	var a *Arena
	if n := len(pool); n > 0 {
		a = pool[n-1]
		pool = pool[:n-1]
	}
	poolMu.Unlock()
	if a == nil {
		mem, err := syscall.Mmap(-1, 0, arenaBytes, syscall.PROT_NONE,
			syscall.MAP_ANON|syscall.MAP_PRIVATE|syscall.MAP_NORESERVE)
		if err != nil {
			panic(fmt.Sprintf("guard: mmap failed: %v", err))
		}
		a = &Arena{mem: mem, base: uintptr(unsafe.Pointer(&mem[0]))}
		fmt.Printf("GUARD-ARENA base=%#x end=%#x\n", a.base, a.base+arenaBytes)
	}
	a.Reset(mode)
	return a
}

// Release returns the arena to the pool; its memory is recycled by the next Get.
// Only call once nothing can touch its blocks any more (after Close returned).
func (a *Arena) Release() {
	if a.abandoned {
		return
	}
	a.Reset(a.mode)
	poolMu.Lock()
	pool = append(pool, a)
	poolMu.Unlock()
}

// Abandon leaks the arena (its blocks stay as they are, forever) so that goroutines
// of a case that could not be shut down cleanly never see their memory recycled.
func (a *Arena) Abandon() {
	a.abandoned = true
}

// Range returns the address range of the arena.
func (a *Arena) Range() (lo, hi uintptr) { return a.base, a.base + uintptr(len(a.mem)) }

// Reset discards every block and returns the used region to the OS.
func (a *Arena) Reset(mode Mode) {
	a.mu.Lock()
	defer a.mu.Unlock()
	if a.mapped > 0 {
		region := a.mem[:a.mapped]
		syscall.Mprotect(region, syscall.PROT_NONE)
		syscall.Madvise(region, syscall.MADV_DONTNEED)
	}
	a.next = 0
	a.mapped = 0
	a.mode = mode
	a.blocks = map[uintptr]*Block{}
	a.order = a.order[:0]
	a.bad = nil
	a.Mallocs, a.Frees = 0, 0
	a.OnMalloc, a.OnFree = nil, nil
	a.exhausted = false
	atomic.StoreInt64(&a.Op, 0)
}

func fill(b []byte, v byte) {
	for i := range b {
		b[i] = v
	}
}

const chunk = 512 << 10 // fresh memory is made accessible this many bytes at a time

// Malloc implements skiplist.MallocFn.
func (a *Arena) Malloc(n int) unsafe.Pointer {
	if cb := a.OnMalloc; cb != nil {
		cb(n)
	}
	a.mu.Lock()
	defer a.mu.Unlock()
	pages := uintptr((n + pageSize - 1) / pageSize)
	if pages == 0 {
		pages = 1
	}
	span := pages * pageSize
	if a.next+span+chunk > uintptr(len(a.mem)) {
		a.exhausted = true
		panic("guard: arena exhausted")
	}
	off := a.next
	a.next += span
	for a.next > a.mapped {
		if err := syscall.Mprotect(a.mem[a.mapped:a.mapped+chunk], syscall.PROT_READ|syscall.PROT_WRITE); err != nil {
			panic(fmt.Sprintf("guard: mprotect: %v", err))
		}
		a.mapped += chunk
	}
	region := a.mem[off : off+span]
	fill(region, 0xAB) // reliance on zeroed memory shows; the tail doubles as an overrun canary
	b := &Block{Addr: a.base + off, Size: n, span: span, Live: true, Seq: len(a.order), AllocOp: atomic.LoadInt64(&a.Op)}
	a.blocks[b.Addr] = b
	a.order = append(a.order, b)
	a.Mallocs++
	return unsafe.Pointer(&a.mem[off])
}

// Free implements skiplist.FreeFn.
func (a *Arena) Free(p unsafe.Pointer) {
	if cb := a.OnFree; cb != nil {
		cb(p)
	}
	a.mu.Lock()
	defer a.mu.Unlock()
	a.Frees++
	addr := uintptr(p)
	op := atomic.LoadInt64(&a.Op)
	b := a.blocks[addr]
	if b == nil {
		a.bad = append(a.bad, BadFree{Addr: addr, Kind: "unknown", Op: op, Seq: -1})
		return
	}
	if !b.Live {
		a.bad = append(a.bad, BadFree{Addr: addr, Kind: "double", Op: op, FirstFreeOp: b.FreeOp, Seq: b.Seq})
		return
	}
	b.Live = false
	b.FreeOp = op
	off := addr - a.base
	region := a.mem[off : off+b.span]
	for _, c := range region[b.Size:] {
		if c != 0xAB {
			a.bad = append(a.bad, BadFree{Addr: addr, Kind: "overrun", Op: op, Seq: b.Seq})
			break
		}
	}
	if a.mode == Trap {
		fill(region[:b.Size], 0xDD)
		syscall.Mprotect(region, syscall.PROT_NONE)
	} else {
		fill(region, 0)
	}
}

// IsLive reports whether p is the start of a live block.
func (a *Arena) IsLive(p unsafe.Pointer) bool {
	a.mu.Lock()
	defer a.mu.Unlock()
	b := a.blocks[uintptr(p)]
	return b != nil && b.Live
}

// Known reports whether p is the start of a block ever handed out in this case.
func (a *Arena) Known(p unsafe.Pointer) bool {
	a.mu.Lock()
	defer a.mu.Unlock()
	return a.blocks[uintptr(p)] != nil
}

// Describe maps an address (e.g. a fault address) to the block containing it.
func (a *Arena) Describe(addr uintptr) string {
	a.mu.Lock()
	defer a.mu.Unlock()
	if addr < a.base || addr >= a.base+uintptr(len(a.mem)) {
		return fmt.Sprintf("%#x outside arena", addr)
	}
	i := sort.Search(len(a.order), func(i int) bool { return a.order[i].Addr > addr })
	if i == 0 {
		return fmt.Sprintf("%#x before first block", addr)
	}
	b := a.order[i-1]
	st := "freed"
	if b.Live {
		st = "live"
	}
	return fmt.Sprintf("%#x = block#%d+%d (size %d, %s, allocated by op %d, freed by op %d)",
		addr, b.Seq, addr-b.Addr, b.Size, st, b.AllocOp, b.FreeOp)
}

type Report struct {
	Mallocs, Frees int64
	Leaks          []Block
	Bad            []BadFree
	StaleWrites    []Block // quarantine mode: freed blocks no longer zero
}

func (r Report) Clean() bool { return len(r.Leaks) == 0 && len(r.Bad) == 0 && len(r.StaleWrites) == 0 }

func (r Report) String() string {
	s := fmt.Sprintf("mallocs=%d frees=%d leaks=%d badfrees=%d stalewrites=%d", r.Mallocs, r.Frees, len(r.Leaks), len(r.Bad), len(r.StaleWrites))
	for i, l := range r.Leaks {
		if i >= 5 {
			s += " …"
			break
		}
		s += fmt.Sprintf(" leak[block#%d size=%d op=%d]", l.Seq, l.Size, l.AllocOp)
	}
	for i, b := range r.Bad {
		if i >= 5 {
			s += " …"
			break
		}
		s += fmt.Sprintf(" bad[%s block#%d op=%d firstfree=%d]", b.Kind, b.Seq, b.Op, b.FirstFreeOp)
	}
	for i, l := range r.StaleWrites {
		if i >= 5 {
			break
		}
		s += fmt.Sprintf(" stalewrite[block#%d size=%d freedop=%d]", l.Seq, l.Size, l.FreeOp)
	}
	return s
}

// Report returns the leak / bad-free state of the current case.
func (a *Arena) Report() Report {
	a.mu.Lock()
	defer a.mu.Unlock()
	r := Report{Mallocs: a.Mallocs, Frees: a.Frees, Bad: append([]BadFree(nil), a.bad...)}
	for _, b := range a.order {
		if b.Live {
			r.Leaks = append(r.Leaks, *b)
		} else if a.mode == Quarantine {
			off := b.Addr - a.base
			for _, c := range a.mem[off : off+b.span] {
				if c != 0 {
					r.StaleWrites = append(r.StaleWrites, *b)
					break
				}
			}
		}
	}
	return r
}

// LiveCount returns the number of live blocks.
func (a *Arena) LiveCount() int {
	a.mu.Lock()
	defer a.mu.Unlock()
	n := 0
	for _, b := range a.order {
		if b.Live {
			n++
		}
	}
	return n
}

// BadCount returns the number of bad frees recorded so far.
func (a *Arena) BadCount() int {
	a.mu.Lock()
	defer a.mu.Unlock()
	return len(a.bad)
}

// SetOp sets the current operation id used to attribute allocations.
func (a *Arena) SetOp(op int64) { atomic.StoreInt64(&a.Op, op) }
