package sched

import (
	"fmt"
	"math/rand"

	"pgregory.net/rapid"
)

// DrawPicker draws a schedule encoding for n threads: a random walk (one small
// int per step, biased to keep the current thread) or PCT priorities with 0-4
// change points. The returned string describes it for case hashing.
func DrawPicker(t *rapid.T, n int, horizon int) (Picker, string) {
	if rapid.IntRange(0, 2).Draw(t, "pickerkind") == 0 {
		perm := rapid.Permutation(seq(n)).Draw(t, "prio")
		d := rapid.IntRange(0, 4).Draw(t, "changes")
		ch := map[int]bool{}
		var pts []int
		for i := 0; i < d; i++ {
			p := rapid.IntRange(0, horizon).Draw(t, "changeat")
			ch[p] = true
			pts = append(pts, p)
		}
		return &PCT{Prio: perm, Changes: ch, MaxStep: 20 * horizon}, fmt.Sprintf("pct%v@%v", perm, pts)
	}
	stay := rapid.IntRange(1, 4).Draw(t, "stay") // weight of "keep running the current thread"
	choices := rapid.SliceOfN(rapid.IntRange(0, n*(1+stay)-1), 0, horizon).Draw(t, "walk")
	return &RandomWalk{Choices: choices, N: n}, fmt.Sprintf("walk(stay=%d)%v", stay, choices)
}

func seq(n int) []int {
	s := make([]int, n)
	for i := range s {
		s[i] = i
	}
	return s
}

// SeedRand makes the library's use of the global math/rand source (node heights of
// internal skiplists, writer PRNG seeds) a function of the drawn case.
func SeedRand(t *rapid.T) {
	rand.Seed(int64(rapid.IntRange(1, 1<<30).Draw(t, "randseed")))
}
