package sched

import (
	"fmt"
	"math/rand"
	"sort"

	"pgregory.net/rapid"
)

// DrawPicker draws a schedule encoding for n threads: a random walk (one small
// int per step, biased to keep the current thread) or PCT priorities with 0-4
// change points. The returned string describes it for case hashing.
func DrawPicker(t *rapid.T, n int, horizon int) (Picker, string) {
	if rapid.IntRange(0, 2).Draw(t, "pickerkind") == 0 {
		perm := rapid.Permutation(seq(n)).Draw(t, "prio")
		d := rapid.IntRange(0, 4).Draw(t, "changes")
		ch := map[int]bool{}
		var pts []int
		for i := 0; i < d; i++ {
			p := rapid.IntRange(0, horizon).Draw(t, "changeat")
			ch[p] = true
			pts = append(pts, p)
		}
		return &PCT{Prio: perm, Changes: ch, MaxStep: 20 * horizon}, fmt.Sprintf("pct%v@%v", perm, pts)
	}
	stay := rapid.IntRange(1, 4).Draw(t, "stay") // weight of "keep running the current thread"
	choices := rapid.SliceOfN(rapid.IntRange(0, n*(1+stay)-1), 0, horizon).Draw(t, "walk")
	return &RandomWalk{Choices: choices, N: n}, fmt.Sprintf("walk(stay=%d)%v", stay, choices)
}

func seq(n int) []int {
	s := make([]int, n)
	for i := range s {
		s[i] = i
	}
	return s
}

// SeedRand makes the library's use of the global math/rand source (node heights of
// internal skiplists, writer PRNG seeds) a function of the drawn case.
func SeedRand(t *rapid.T) {
	rand.Seed(int64(rapid.IntRange(1, 1<<30).Draw(t, "randseed")))
}

// DrawHotPlans draws Sched.Hot: for each point a plan of up to n entries, half of them 0 (no parking), the
// others the number of scheduling steps the yielding thread stays parked.
func DrawHotPlans(t *rapid.T, points []int, n, maxPark int) map[int][]int {
	out := map[int][]int{}
	for _, p := range points {
		plan := rapid.SliceOfN(rapid.IntRange(-maxPark, maxPark), 0, n).Draw(t, "hotplan")
		for i, v := range plan {
			if v < 0 {
				plan[i] = 0
			}
		}
		out[p] = plan
	}
	return out
}

// FmtHot renders hot plans in point order.
func FmtHot(h map[int][]int) string {
	var ks []int
	for k := range h {
		ks = append(ks, k)
	}
	sort.Ints(ks)
	s := ""
	for _, k := range ks {
		s += fmt.Sprintf(" %d:%v", k, h[k])
	}
	return s
}
