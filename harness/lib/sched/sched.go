// Package sched is a token-passing scheduler: logical threads are goroutines, but
// exactly one runs at a time. Every yield point (verif hooks in the code under
// test, harness callbacks) hands control back to the scheduler, which picks the
// next thread from a generated schedule. The schedule is therefore an input.
package sched

import (
	"bytes"
	"fmt"
	"runtime"
	"runtime/debug"
	"strconv"
	"sync"
	"sync/atomic"
	"time"
)

// Picker chooses the next thread among the enabled ones.
type Picker interface {
	// Pick returns an index into enabled. cur is the id of the thread that ran last (or -1)
	// and curEnabled tells whether it is among enabled.
	Pick(step int, enabled []int, cur int, curEnabled bool) int
}

// RandomWalk consumes one drawn value per step; a value >= N means "keep running the
// current thread if possible". Once exhausted it falls back to round-robin.
type RandomWalk struct {
	Choices []int
	N       int // number of threads
	rr      int
}

func (p *RandomWalk) Pick(step int, enabled []int, cur int, curEnabled bool) int {
	if step < len(p.Choices) {
		c := p.Choices[step]
		if c >= p.N && curEnabled {
			for i, id := range enabled {
				if id == cur {
					return i
				}
			}
		}
		return c % len(enabled)
	}
	p.rr++
	return p.rr % len(enabled)
}

// PCT: drawn priorities; the highest-priority enabled thread runs; at each change
// point the running thread's priority drops below all others.
type PCT struct {
	Prio    []int        // priority per thread id (higher runs first)
	Changes map[int]bool // step indexes at which the current thread is demoted
	MaxStep int          // after this many steps: round-robin (guarantees termination)
	low     int
	rr      int
}

func (p *PCT) Pick(step int, enabled []int, cur int, curEnabled bool) int {
	if p.MaxStep > 0 && step > p.MaxStep {
		p.rr++
		return p.rr % len(enabled)
	}
	if p.Changes[step] && cur >= 0 && cur < len(p.Prio) {
		p.low--
		p.Prio[cur] = p.low
	}
	best := 0
	for i, id := range enabled {
		if p.Prio[id] > p.Prio[enabled[best]] {
			best = i
		}
	}
	return best
}

type evKind int

const (
	evYield evKind = iota
	evDone
	evPanic
)

type event struct {
	kind  evKind
	t     *Thread
	point int
}

type Thread struct {
	parkUntil int // not scheduled before this step unless nothing else is enabled
	ID        int
	fn        func(t *Thread)
	resume    chan struct{}
	done      bool
	blocked   *sync.Mutex
	gid       int64
	InOp      bool // set by the harness while an operation of the script is in flight
	Yields    int
	s         *Sched
}

type Failure struct {
	Kind  string // "panic" | "deadlock" | "stall"
	Value any
	Stack string
	Tid   int
}

func (f *Failure) Error() string {
	return fmt.Sprintf("%s in thread %d: %v\n%s", f.Kind, f.Tid, f.Value, f.Stack)
}

type Sched struct {
	// Hot points: when a thread yields at a point that has a plan in Hot, the next entry k of that plan is
	// consumed; k > 0 parks the thread for k scheduling steps (other enabled threads run meanwhile), so that a
	// drawn plan of a few numbers reaches "thread A stands exactly here while B completes an operation".
	Hot        map[int][]int
	hotIdx     map[int]int
	threads    []*Thread
	cur        *Thread
	events     chan event
	picker     Picker
	Steps      int
	MaxSteps   int // hard bound; beyond it the run is reported as a stall
	Preempts   int // switches away from a thread that was in an operation and still enabled
	Switches   int
	Clock      int64 // logical time, advanced by Tick (only the running thread touches it)
	UseGid     bool  // identify controlled threads by goroutine id (needed when free-running goroutines also hit the hooks)
	byGid      sync.Map
	running    int32
	PointHits  map[int]int
	Trace      []int8
	KeepTrace  bool
	StallAfter time.Duration
}

func New(p Picker) *Sched {
	return &Sched{picker: p, events: make(chan event), MaxSteps: 200000, PointHits: map[int]int{}, StallAfter: 30 * time.Second}
}

// Go registers a logical thread. Must be called before Run.
func (s *Sched) Go(fn func(t *Thread)) *Thread {
	t := &Thread{ID: len(s.threads), fn: fn, resume: make(chan struct{}), s: s}
	s.threads = append(s.threads, t)
	return t
}

// Tick advances and returns the logical clock (call only from the running thread).
func (s *Sched) Tick() int64 {
	s.Clock++
	return s.Clock
}

// Goid returns the id of the calling goroutine.
func Goid() int64 { return goid() }

func goid() int64 {
	var buf [64]byte
	n := runtime.Stack(buf[:], false)
	// "goroutine 123 ["
	b := buf[:n]
	b = b[len("goroutine "):]
	i := bytes.IndexByte(b, ' ')
	id, _ := strconv.ParseInt(string(b[:i]), 10, 64)
	return id
}

// current returns the controlled thread executing the caller, or nil.
func (s *Sched) current() *Thread {
	if atomic.LoadInt32(&s.running) == 0 {
		return nil
	}
	if s.UseGid {
		if v, ok := s.byGid.Load(goid()); ok {
			return v.(*Thread)
		}
		return nil
	}
	return s.cur
}

// Yield is the hook body: called from inside the code under test.
func (s *Sched) Yield(point int) {
	t := s.current()
	if t == nil {
		return
	}
	t.Yields++
	s.events <- event{kind: evYield, t: t, point: point}
	<-t.resume
}

// LockWait is the cooperative mutex wait installed as the lock hook.
func (s *Sched) LockWait(m *sync.Mutex) {
	t := s.current()
	if t == nil {
		return
	}
	for !m.TryLock() {
		t.blocked = m
		s.events <- event{kind: evYield, t: t, point: -1}
		<-t.resume
	}
	t.blocked = nil
	m.Unlock()
}

func (s *Sched) start(t *Thread) {
	go func() {
		debug.SetPanicOnFault(true)
		<-t.resume
		if s.UseGid {
			t.gid = goid()
			s.byGid.Store(t.gid, t)
		}
		defer func() {
			if r := recover(); r != nil {
				panicInfo.Store(t, &Failure{Kind: "panic", Value: r, Stack: string(debug.Stack()), Tid: t.ID})
				s.events <- event{kind: evPanic, t: t, point: 0}
				return
			}
			s.events <- event{kind: evDone, t: t}
		}()
		t.fn(t)
	}()
}

var panicInfo sync.Map

// Run executes all registered threads under the schedule. It returns nil when every
// thread ran to completion, else a *Failure (panic in a thread, deadlock, stall).
// After a failure the remaining threads are left parked forever.
func (s *Sched) Run() *Failure {
	for _, t := range s.threads {
		s.start(t)
	}
	atomic.StoreInt32(&s.running, 1)
	defer atomic.StoreInt32(&s.running, 0)
	timer := time.NewTimer(s.StallAfter)
	defer timer.Stop()
	enabled := make([]int, 0, len(s.threads))
	parked0 := make([]int, 0, len(s.threads))
	curID := -1
	var blockedSince time.Time
	for {
		enabled = enabled[:0]
		parked := parked0[:0]
		alive := 0
		curEnabled := false
		for _, t := range s.threads {
			if t.done {
				continue
			}
			alive++
			if t.blocked != nil {
				if !t.blocked.TryLock() {
					continue
				}
				t.blocked.Unlock()
			}
			if t.parkUntil > s.Steps {
				parked = append(parked, t.ID)
				continue
			}
			enabled = append(enabled, t.ID)
			if t.ID == curID {
				curEnabled = true
			}
		}
		if len(enabled) == 0 && len(parked) > 0 {
			// nothing else can run: the parked threads continue
			for _, id := range parked {
				s.threads[id].parkUntil = 0
				enabled = append(enabled, id)
				if id == curID {
					curEnabled = true
				}
			}
		}
		if alive == 0 {
			return nil
		}
		if len(enabled) == 0 {
			// every live thread waits for a mutex. A free-running goroutine (not under this
			// scheduler) may be the holder: give it time before calling it a deadlock.
			if s.UseGid && blockedSince.IsZero() {
				blockedSince = time.Now()
			}
			if s.UseGid && time.Since(blockedSince) < s.StallAfter {
				time.Sleep(20 * time.Microsecond)
				continue
			}
			return &Failure{Kind: "deadlock", Value: fmt.Sprintf("%d threads alive, none enabled", alive), Tid: -1}
		}
		blockedSince = time.Time{}
		if s.Steps >= s.MaxSteps {
			return &Failure{Kind: "stall", Value: fmt.Sprintf("more than %d scheduling steps", s.MaxSteps), Tid: -1}
		}
		idx := s.picker.Pick(s.Steps, enabled, curID, curEnabled)
		next := s.threads[enabled[idx]]
		if curID >= 0 && next.ID != curID {
			s.Switches++
			if curEnabled && s.threads[curID].InOp {
				s.Preempts++
			}
		}
		s.Steps++
		if s.KeepTrace {
			s.Trace = append(s.Trace, int8(next.ID))
		}
		s.cur = next
		curID = next.ID
		next.resume <- struct{}{}
		if !timer.Stop() {
			select {
			case <-timer.C:
			default:
			}
		}
		timer.Reset(s.StallAfter)
		select {
		case ev := <-s.events:
			switch ev.kind {
			case evYield:
				s.PointHits[ev.point]++
				if plan := s.Hot[ev.point]; len(plan) > 0 {
					if s.hotIdx == nil {
						s.hotIdx = map[int]int{}
					}
					if i := s.hotIdx[ev.point]; i < len(plan) {
						if k := plan[i]; k > 0 {
							ev.t.parkUntil = s.Steps + k
						}
						s.hotIdx[ev.point] = i + 1
					}
				}
			case evDone:
				ev.t.done = true
			case evPanic:
				ev.t.done = true
				if v, ok := panicInfo.LoadAndDelete(ev.t); ok {
					return v.(*Failure)
				}
				// the panic info is stored right after the send; wait for it
				for i := 0; i < 1000; i++ {
					time.Sleep(time.Millisecond)
					if v, ok := panicInfo.LoadAndDelete(ev.t); ok {
						return v.(*Failure)
					}
				}
				return &Failure{Kind: "panic", Value: "unknown", Tid: ev.t.ID}
			}
		case <-timer.C:
			return &Failure{Kind: "stall", Value: fmt.Sprintf("thread %d did not yield or finish within %v", next.ID, s.StallAfter), Tid: next.ID}
		}
	}
}
