package ntcheck

import (
	"bytes"
	"fmt"
	"hash/crc32"
	"os"
	"strings"
	"testing"
	"unsafe"

	"github.com/couchbase/nitro"
	"github.com/couchbase/nitro/nodetable"
	"github.com/couchbase/nitro/skiplist"
	"pgregory.net/rapid"

	"verif/lib/ev"
	"verif/lib/sched"
)

func TestMain(m *testing.M) {
	code := m.Run()
	ev.Flush()
	os.Exit(code)
}

type rec struct {
	key []byte
	id  int
}

func keyEq(p unsafe.Pointer, k []byte) bool { return bytes.Equal((*rec)(p).key, k) }

var hashes = []struct {
	name string
	fn   nodetable.HashFn
}{
	{"const", func([]byte) uint32 { return 7 }},
	{"len%2", func(b []byte) uint32 { return uint32(len(b) % 2) }},
	{"first%3", func(b []byte) uint32 {
		if len(b) == 0 {
			return 0
		}
		return uint32(b[0] % 3)
	}},
	{"crc32", crc32.ChecksumIEEE},
}

// C20 (node table): behaves as a map from keys to pointers for every hash function.
func makePropC20Table(test string) func(t *rapid.T) {
	st := ev.Get("C20", test)
	return func(t *rapid.T) {
		sched.SeedRand(t)
		h := hashes[rapid.IntRange(0, len(hashes)-1).Draw(t, "hash")]
		nt := nodetable.New(h.fn, keyEq)
		defer nt.Close()
		var pins []*rec // the table hides its pointers from the garbage collector
		model := map[string]*rec{}
		var log []string
		fail := func(sig, format string, args ...any) {
			msg := fmt.Sprintf(format, args...)
			st.Fail(sig, msg+"\nCASE: hash="+h.name+" "+strings.Join(log, "; "))
			t.Fatalf("FAIL[%s] %s\nCASE: hash=%s %s", sig, msg, h.name, strings.Join(log, "; "))
		}
		// shadow of bucket shapes, only to classify cases
		bucket := map[uint32][]string{} // keys per hash in insertion order; [0] is the fast entry
		removedFastWithOverflow := map[uint32]bool{}
		nontrivial := false
		genKey := func() []byte {
			n := rapid.IntRange(0, 3).Draw(t, "klen")
			b := make([]byte, n)
			for i := range b {
				b[i] = "abc"[rapid.IntRange(0, 2).Draw(t, "ksym")]
			}
			return b
		}
		id := 0
		t.Repeat(map[string]func(*rapid.T){
			"update": func(t *rapid.T) {
				k := genKey()
				id++
				r := &rec{key: k, id: id}
				pins = append(pins, r)
				old := model[string(k)]
				upd, oldp := nt.Update(k, unsafe.Pointer(r))
				log = append(log, fmt.Sprintf("update(%q)=%v", k, upd))
				if upd != (old != nil) {
					fail("update-result", "Update(%q) reported updated=%v, key present=%v", k, upd, old != nil)
				}
				if old != nil && (*rec)(oldp) != old {
					fail("update-old-pointer", "Update(%q) returned old pointer %p, stored pointer was %p", k, oldp, old)
				}
				if old == nil && oldp != nil {
					fail("update-old-pointer", "Update(%q) of an absent key returned a non-nil old pointer", k)
				}
				model[string(k)] = r
				hv := h.fn(k)
				if old == nil {
					if removedFastWithOverflow[hv] {
						nontrivial = true
					}
					bucket[hv] = append(bucket[hv], string(k))
				}
			},
			"get": func(t *rapid.T) {
				k := genKey()
				p := nt.Get(k)
				log = append(log, fmt.Sprintf("get(%q)", k))
				if (*rec)(p) != model[string(k)] {
					fail("get-result", "Get(%q)=%p, model has %p", k, p, model[string(k)])
				}
			},
			"remove": func(t *rapid.T) {
				k := genKey()
				old := model[string(k)]
				ok, p := nt.Remove(k)
				log = append(log, fmt.Sprintf("remove(%q)=%v", k, ok))
				if ok != (old != nil) {
					fail("remove-result", "Remove(%q)=%v, key present=%v", k, ok, old != nil)
				}
				if old != nil && (*rec)(p) != old {
					fail("remove-pointer", "Remove(%q) returned %p, stored pointer was %p", k, p, old)
				}
				if old == nil && p != nil {
					fail("remove-pointer", "Remove(%q) of an absent key returned a non-nil pointer", k)
				}
				delete(model, string(k))
				if old != nil {
					hv := h.fn(k)
					b := bucket[hv]
					for i, s := range b {
						if s == string(k) {
							if i == 0 && len(b) > 1 {
								removedFastWithOverflow[hv] = true
							}
							bucket[hv] = append(append([]string(nil), b[:i]...), b[i+1:]...)
							break
						}
					}
				}
			},
			"": func(t *rapid.T) {
				if got := nt.ItemsCount(); got != int64(len(model)) {
					fail("items-count", "ItemsCount()=%d, model has %d keys", got, len(model))
				}
				if got := nt.MemoryInUse(); got != 42*int64(len(model)) {
					fail("memory-in-use", "MemoryInUse()=%d, expected 42*%d", got, len(model))
				}
			},
		})
		for k, r := range model {
			if p := nt.Get([]byte(k)); (*rec)(p) != r {
				fail("get-result", "final Get(%q)=%p, model has %p", k, p, r)
			}
		}
		st.Case("hash="+h.name+" "+strings.Join(log, "; "), nontrivial, "hash-"+h.name)
		_ = pins
	}
}

func TestC20Table(t *testing.T) {
	rapid.Check(t, makePropC20Table("TestC20Table"))
}

// C20 (node list): Add at head, Remove of the first node with an equal key, Keys in list order.
func TestC20List(t *testing.T) {
	st := ev.Get("C20", "TestC20List")
	db := nitro.New()
	defer db.Close()
	w := db.NewWriter()
	serial := 0
	rapid.Check(t, func(t *rapid.T) {
		sched.SeedRand(t)
		var log []string
		fail := func(sig, format string, args ...any) {
			msg := fmt.Sprintf(format, args...)
			st.Fail(sig, msg+"\nCASE: "+strings.Join(log, "; "))
			t.Fatalf("FAIL[%s] %s\nCASE: %s", sig, msg, strings.Join(log, "; "))
		}
		// nodes come from Put2 of distinct items; the list key is a prefix shared by several nodes
		type ent struct {
			key  string
			node *skiplist.Node
		}
		var model []ent // list order: head first
		var l *nitro.NodeList
		newNode := func(key string) *skiplist.Node {
			// NodeList compares whole item bytes. Deleting the item right after the Put keeps the
			// node (Go-managed memory, pinned by the harness) and lets later nodes carry equal bytes,
			// so the list can hold several nodes with the same key.
			serial++
			n := w.Put2([]byte(key))
			if n == nil {
				t.Fatalf("setup: Put2 failed")
			}
			if !w.Delete([]byte(key)) {
				t.Fatalf("setup: Delete failed")
			}
			return n
		}
		startEmpty := rapid.Bool().Draw(t, "startempty")
		if startEmpty {
			l = nitro.NewNodeList(nil)
		} else {
			n := newNode("h")
			l = nitro.NewNodeList(n)
			model = append(model, ent{string(nitro.VerifItemFromNode(n).Bytes()), n})
		}
		var removed []ent
		readds := 0
		t.Repeat(map[string]func(*rapid.T){
			"add": func(t *rapid.T) {
				var e ent
				if len(removed) > 0 && rapid.Bool().Draw(t, "readd") {
					i := rapid.IntRange(0, len(removed)-1).Draw(t, "ridx")
					e = removed[i]
					removed = append(removed[:i], removed[i+1:]...)
					readds++
				} else {
					n := newNode([]string{"a", "bb", "ccc", "dddd", "b"}[rapid.IntRange(0, 4).Draw(t, "k")])
					e = ent{string(nitro.VerifItemFromNode(n).Bytes()), n}
				}
				l.Add(e.node)
				log = append(log, fmt.Sprintf("add(%q)", e.key))
				model = append([]ent{e}, model...)
			},
			"remove": func(t *rapid.T) {
				var key string
				if len(model) > 0 && rapid.IntRange(0, 3).Draw(t, "present") > 0 {
					key = model[rapid.IntRange(0, len(model)-1).Draw(t, "midx")].key
				} else {
					key = "absent"
				}
				n := l.Remove([]byte(key))
				log = append(log, fmt.Sprintf("remove(%q)", key))
				idx := -1
				for i, e := range model {
					if e.key == key {
						idx = i
						break
					}
				}
				if (n != nil) != (idx >= 0) {
					fail("list-remove", "Remove(%q) returned node=%v, key present=%v", key, n != nil, idx >= 0)
				}
				if idx >= 0 {
					if n != model[idx].node {
						fail("list-remove-node", "Remove(%q) returned a different node than the first one with that key", key)
					}
					removed = append(removed, model[idx])
					model = append(model[:idx], model[idx+1:]...)
				}
			},
			"": func(t *rapid.T) {
				keys := l.Keys()
				if len(keys) != len(model) {
					fail("list-keys", "Keys() has %d entries, model %d", len(keys), len(model))
				}
				for i, k := range keys {
					if string(k) != model[i].key {
						fail("list-keys", "Keys()[%d]=%q, model has %q", i, k, model[i].key)
					}
				}
				var head *skiplist.Node
				if len(model) > 0 {
					head = model[0].node
				}
				if l.Head() != head {
					fail("list-head", "Head() differs from the model's first node")
				}
			},
		})
		dup := false
		seen := map[string]bool{}
		for _, e := range model {
			if seen[e.key] {
				dup = true
			}
			seen[e.key] = true
		}
		st.Case(strings.Join(log, "; "), len(log) >= 4 && (readds > 0 || dup))
	})
}

// FuzzC20Table drives the node table property with coverage-guided native fuzzing (thorough tier).
func FuzzC20Table(f *testing.F) {
	f.Fuzz(rapid.MakeFuzz(makePropC20Table("FuzzC20Table")))
}
