package slcheck

import (
	"fmt"
	"sync"
	"testing"
	"unsafe"

	"github.com/couchbase/nitro/skiplist"
	"pgregory.net/rapid"

	"verif/lib/ev"
	"verif/lib/guard"
	"verif/lib/sched"
)

// reachable collects every node linked from head at any level (marked or not).
func reachable(sl *skiplist.Skiplist) (map[*skiplist.Node]int, error) {
	out := map[*skiplist.Node]int{}
	head, tail := sl.HeadNode(), sl.TailNode()
	for l := 0; l <= skiplist.MaxLevel; l++ {
		cur, _ := head.VerifNext(l)
		steps := 0
		for cur != tail {
			if cur == nil {
				return out, fmt.Errorf("level %d chain ends in nil", l)
			}
			if steps++; steps > 100000 {
				return out, fmt.Errorf("level %d: cycle", l)
			}
			if _, ok := out[cur]; !ok {
				out[cur] = l
			}
			cur, _ = cur.VerifNext(l)
		}
		if steps == 0 && l > 0 {
			break
		}
	}
	return out, nil
}

// C04 layer A: skiplist + access barrier + guard allocator (trap mode), fully
// controlled. Threads play nitro's roles with a correct client protocol:
// writer (insert; lookup+delete+flush-on-success under one token), collector
// (unlink a list of nodes, then flush the list), reader (iterator with refresh,
// pause/resume, seek). Oracle: no fault, no bad free, every node reachable from
// head at any level is live after every completed operation and at the end,
// and a node obtained from an open iterator is live.
func TestC04A(t *testing.T) {
	st := ev.Get("C04", "TestC04A")
	rapid.Check(t, func(t *rapid.T) {
		sched.SeedRand(t)
		f := &failer{t: t, st: st}
		w := newSLWorld(f, true, guard.Trap)
		defer w.release()
		// even keys 0..10 pre-populated; some of them are handed to collectors
		var pre, lv []int
		for k := 0; k <= 10; k += 2 {
			pre = append(pre, k)
			lv = append(lv, rapid.IntRange(0, 4).Draw(t, "level"))
		}
		w.prepopulate(pre, lv)
		buf := w.sl.MakeBuf()
		nodeOf := map[int]*skiplist.Node{}
		for _, k := range pre {
			_, n, _ := w.sl.Lookup(w.item(k), skiplist.CompareInt, buf, &w.sl.Stats)
			nodeOf[k] = n
		}
		type role struct {
			kind   int // 0 writer, 1 collector, 2 reader
			ops    []slOp
			list   []int // collector: keys (even) to unlink
			rate   int
			seekAt int
			pause  int
		}
		nth := rapid.IntRange(2, 4).Draw(t, "threads")
		wkeys := rapid.IntRange(1, 3).Draw(t, "wkeys") // few writer keys: collisions are the norm
		roles := make([]role, nth)
		gcTaken := map[int]bool{}
		hasReader, hasFree := false, false
		for i := range roles {
			k := rapid.IntRange(0, 2).Draw(t, "role")
			if i == 0 {
				k = 0 // always one writer
			} else if i == 1 && rapid.IntRange(0, 2).Draw(t, "secondwriter") > 0 {
				k = 0
			} else if i == nth-1 && !hasReader && nth > 2 {
				k = 2
			}
			r := role{kind: k}
			switch k {
			case 0:
				n := rapid.IntRange(1, 5).Draw(t, "oplen")
				for j := 0; j < n; j++ {
					key := 1 + 2*rapid.IntRange(0, wkeys-1).Draw(t, "wkey")
					if rapid.Bool().Draw(t, "ins") {
						r.ops = append(r.ops, slOp{kind: 0, key: key, level: rapid.IntRange(0, 4).Draw(t, "wlevel")})
					} else {
						r.ops = append(r.ops, slOp{kind: 1, key: key})
						hasFree = true
					}
				}
			case 1:
				n := rapid.IntRange(1, 3).Draw(t, "listlen")
				for j := 0; j < n; j++ {
					key := 2 * rapid.IntRange(0, 5).Draw(t, "gckey")
					if !gcTaken[key] {
						gcTaken[key] = true
						r.list = append(r.list, key)
						hasFree = true
					}
				}
			case 2:
				hasReader = true
				r.rate = []int{0, 1, 2, 3}[rapid.IntRange(0, 3).Draw(t, "rate")]
				r.seekAt = rapid.IntRange(-1, 11).Draw(t, "seek")
				r.pause = rapid.IntRange(-1, 5).Draw(t, "pause")
			}
			roles[i] = r
		}
		picker, pdesc := sched.DrawPicker(t, nth, 500)
		f.logf("c04a levels=%v roles=%+v sched=%s", lv, roles, pdesc)
		s := sched.New(picker)
		w.s = s
		freesDuringAccess := 0
		inside := 0 // threads between Acquire and Release (approximation: inside an operation)
		w.arena.OnFree = func(p unsafe.Pointer) {
			if inside > 1 {
				freesDuringAccess++
			}
		}
		checkLinkedLive := func(where string) {
			nodes, err := reachable(w.sl)
			if err != nil {
				panic("FREED-BUT-LINKED: walk failed " + where + ": " + err.Error())
			}
			for n, l := range nodes {
				if !w.arena.IsLive(unsafe.Pointer(n)) {
					panic(fmt.Sprintf("FREED-BUT-LINKED: node %p (key %d) is linked at level %d but has been returned to the allocator (%s)",
						n, 0, l, where))
				}
			}
		}
		iterOnDeleted := false
		for i := range roles {
			r := roles[i]
			sts := &skiplist.Stats{}
			sts.IsLocal(true)
			w.sts = append(w.sts, sts)
			s.Go(func(th *sched.Thread) {
				buf := w.sl.MakeBuf()
				switch r.kind {
				case 0:
					for _, o := range r.ops {
						th.InOp = true
						inside++
						if o.kind == 0 {
							w.insert(o.key, buf, o.level, sts)
						} else {
							tok := w.ab.Acquire()
							_, curr, found := w.sl.Lookup(w.item(o.key), skiplist.CompareInt, buf, sts)
							if found && w.sl.DeleteNode2(curr, skiplist.CompareInt, buf, sts) {
								curr.SetLink(nil)
								w.ab.FlushSession(unsafe.Pointer(curr))
							}
							w.ab.Release(tok)
						}
						inside--
						th.InOp = false
						checkLinkedLive(fmt.Sprintf("after writer op %v", o))
						s.Yield(0)
					}
				case 1:
					if len(r.list) == 0 {
						return
					}
					th.InOp = true
					inside++
					var head, tail *skiplist.Node
					for _, k := range r.list {
						n := nodeOf[k]
						n.SetLink(nil)
						if tail == nil {
							head, tail = n, n
						} else {
							tail.SetLink(n)
							tail = n
						}
					}
					for n := head; n != nil; n = n.GetLink() {
						w.sl.DeleteNode(n, skiplist.CompareInt, buf, sts)
					}
					w.ab.FlushSession(unsafe.Pointer(head))
					inside--
					th.InOp = false
					checkLinkedLive("after collector pass")
				case 2:
					th.InOp = true
					inside++
					it := w.sl.NewIterator(skiplist.CompareInt, buf)
					if r.rate > 0 {
						it.SetRefreshInterval(r.rate)
					}
					if r.seekAt >= 0 {
						it.Seek(w.item(r.seekAt))
					} else {
						it.SeekFirst()
					}
					for n := 0; it.Valid() && n < 100; n++ {
						node := it.GetNode()
						if !w.arena.IsLive(unsafe.Pointer(node)) {
							panic(fmt.Sprintf("STALE-NODE: iterator stands on a node (%p) that has been returned to the allocator", node))
						}
						k := skiplist.IntFromItem(it.Get())
						if _, marked := node.VerifNext(0); marked {
							iterOnDeleted = true
						}
						_ = k
						if n == r.pause {
							it.Pause()
							inside--
							s.Yield(0)
							inside++
							it.Resume()
							it.Seek(w.item(k))
							if !it.Valid() {
								break
							}
						}
						s.Yield(0)
						if !w.arena.IsLive(unsafe.Pointer(it.GetNode())) {
							panic(fmt.Sprintf("STALE-NODE: node under an open iterator (%p) was returned to the allocator before the iterator moved", it.GetNode()))
						}
						it.Next()
					}
					it.Close()
					inside--
					th.InOp = false
				}
			})
		}
		skiplist.VerifSetHooks(s.Yield, func(m *sync.Mutex) { s.LockWait(m) })
		fail := s.Run()
		skiplist.VerifSetHooks(nil, nil)
		w.arena.OnFree = nil
		for _, sts := range w.sts {
			w.sl.Stats.Merge(sts)
		}
		w.sts = nil
		if fail != nil {
			sig := w.failSig(fail)
			if str, ok := fail.Value.(string); ok {
				if len(str) > 16 && str[:16] == "FREED-BUT-LINKED" {
					sig = "freed-but-linked"
				} else if len(str) > 10 && str[:10] == "STALE-NODE" {
					sig = "iterator-node-freed"
				}
			}
			f.failf(sig, "%s%v", w.describeFault(fail), fail)
		}
		func() {
			defer func() {
				if r := recover(); r != nil {
					f.failf("freed-but-linked", "%v", r)
				}
			}()
			checkLinkedLive("at the end")
		}()
		rep := w.arena.Report()
		if len(rep.Bad) > 0 {
			f.failf("bad-free", "allocator: %v", rep)
		}
		// at quiescence everything unlinked has been freed: live blocks == linked nodes + 2 sentinels
		nodes, _ := reachable(w.sl)
		if live := w.arena.LiveCount(); live != 2*len(nodes)+2 {
			f.failf("unlinked-not-freed", "at quiescence the allocator holds %d live blocks but only %d nodes (with one item each, +2 sentinels) are linked", live, len(nodes))
		}
		w.walkCheck("quiescent-")
		st.Case(f.desc(), hasFree && (freesDuringAccess > 0 || iterOnDeleted))
		st.AddExtra("frees-while-others-inside", int64(freesDuringAccess))
		st.AddExtra("sched-steps", int64(s.Steps))
	})
}
