package slcheck

import (
	"fmt"
	"sort"
	"strings"
	"sync"
	"testing"
	"unsafe"

	"github.com/couchbase/nitro/skiplist"
	"pgregory.net/rapid"

	"verif/lib/ev"
	"verif/lib/sched"
	"verif/lib/walk"
)

var processFailed bool

type failer struct {
	t   *rapid.T
	st  *ev.Stats
	log []string
}

func (f *failer) logf(format string, args ...any) {
	f.log = append(f.log, fmt.Sprintf(format, args...))
}
func (f *failer) desc() string { return strings.Join(f.log, "; ") }
func (f *failer) failf(sig, format string, args ...any) {
	msg := fmt.Sprintf(format, args...)
	processFailed = true
	f.st.Fail(sig, msg+"\nCASE: "+f.desc())
	f.t.Fatalf("FAIL[%s] %s\nCASE: %s", sig, msg, f.desc())
}

func scanInts(s *skiplist.Skiplist) []int {
	buf := s.MakeBuf()
	it := s.NewIterator(skiplist.CompareInt, buf)
	defer it.Close()
	var out []int
	for it.SeekFirst(); it.Valid(); it.Next() {
		out = append(out, skiplist.IntFromItem(it.Get()))
		if len(out) > 1000000 {
			break
		}
	}
	return out
}

func eqInts(a, b []int) bool {
	if len(a) != len(b) {
		return false
	}
	for i := range a {
		if a[i] != b[i] {
			return false
		}
	}
	return true
}

// C18 (builder): assembling segments filled with ascending items yields exactly
// their concatenation, with correct statistics, usable like an incrementally built list.
func TestC18Builder(t *testing.T) {
	st := ev.Get("C18", "TestC18Builder")
	rapid.Check(t, func(t *rapid.T) {
		sched.SeedRand(t)
		f := &failer{t: t, st: st}
		nseg := rapid.IntRange(0, 8).Draw(t, "nseg")
		sizes := make([]int, nseg)
		for i := range sizes {
			if rapid.IntRange(0, 3).Draw(t, "empty") == 0 {
				sizes[i] = 0
			} else {
				sizes[i] = rapid.IntRange(1, 40).Draw(t, "size")
			}
		}
		concurrent := rapid.Bool().Draw(t, "concurrent")

		b := skiplist.NewBuilder()
		itemBytes := []int{0, 8, 13}[rapid.IntRange(0, 2).Draw(t, "itemsize")]
		if itemBytes > 0 {
			b.SetItemSizeFunc(func(unsafe.Pointer) int { return itemBytes })
		}
		f.logf("builder sizes=%v concurrent=%v itemsize=%d", sizes, concurrent, itemBytes)
		segs := make([]*skiplist.Segment, nseg)
		var want []int
		next := 0
		vals := make([][]int, nseg)
		for i := range segs {
			segs[i] = b.NewSegment()
			for j := 0; j < sizes[i]; j++ {
				next += rapid.IntRange(1, 3).Draw(t, "gap")
				vals[i] = append(vals[i], next)
				want = append(want, next)
			}
		}
		fillSeg := func(i int) {
			for _, v := range vals[i] {
				segs[i].Add(skiplist.NewIntKeyItem(v))
			}
		}
		if concurrent {
			var wg sync.WaitGroup
			for i := range segs {
				wg.Add(1)
				go func(i int) { defer wg.Done(); fillSeg(i) }(i)
			}
			wg.Wait()
		} else {
			for i := range segs {
				fillSeg(i)
			}
		}
		s := b.Assemble(segs...)
		if got := scanInts(s); !eqInts(got, want) {
			f.failf("builder-content", "assembled list scans to %v, concatenation of the segments is %v", got, want)
		}
		res, err := walk.Walk(s, skiplist.CompareInt)
		if err != nil {
			f.failf("builder-structure", "assembled list: %v", err)
		}
		if err := res.CompareStats(s.Stats.VerifRaw()); err != nil {
			f.failf("builder-stats", "assembled list: %v", err)
		}
		if n := s.GetStats().NodeCount; n != len(want) {
			f.failf("builder-stats", "GetStats().NodeCount=%d for %d items", n, len(want))
		}
		// lookups of every key and of absent keys
		buf := s.MakeBuf()
		model := map[int]bool{}
		for _, v := range want {
			model[v] = true
		}
		for v := 0; v <= next+1; v++ {
			_, _, found := s.Lookup(skiplist.NewIntKeyItem(v), skiplist.CompareInt, buf, &s.Stats)
			if found != model[v] {
				f.failf("builder-lookup", "Lookup(%d) found=%v on the assembled list, expected %v", v, found, model[v])
			}
		}
		// later operations behave like on an incrementally built list
		nops := rapid.IntRange(0, 30).Draw(t, "nops")
		for i := 0; i < nops; i++ {
			v := rapid.IntRange(0, next+3).Draw(t, "opval")
			if rapid.Bool().Draw(t, "ins") {
				ok := s.Insert(skiplist.NewIntKeyItem(v), skiplist.CompareInt, buf, &s.Stats)
				f.logf("insert(%d)=%v", v, ok)
				if ok == model[v] {
					f.failf("builder-later-insert", "Insert(%d)=%v on the assembled list, present=%v", v, ok, model[v])
				}
				model[v] = true
			} else {
				ok := s.Delete(skiplist.NewIntKeyItem(v), skiplist.CompareInt, buf, &s.Stats)
				f.logf("delete(%d)=%v", v, ok)
				if ok != model[v] {
					f.failf("builder-later-delete", "Delete(%d)=%v on the assembled list, present=%v", v, ok, model[v])
				}
				delete(model, v)
			}
		}
		var want2 []int
		for v, p := range model {
			if p {
				want2 = append(want2, v)
			}
		}
		sort.Ints(want2)
		if got := scanInts(s); !eqInts(got, want2) {
			f.failf("builder-later-content", "after further operations the list scans to %v, model has %v", got, want2)
		}
		res, err = walk.Walk(s, skiplist.CompareInt)
		if err != nil {
			f.failf("builder-later-structure", "after further operations: %v", err)
		}
		if err := res.CompareStats(s.Stats.VerifRaw()); err != nil {
			f.failf("builder-later-stats", "after further operations: %v", err)
		}
		// non-trivial: >=2 non-empty segments with an empty one between or before them, tall nodes on both sides of a boundary
		nonEmpty, emptyBefore := 0, false
		seenEmpty := false
		for _, sz := range sizes {
			if sz == 0 {
				seenEmpty = true
			} else {
				if seenEmpty {
					emptyBefore = true
				}
				nonEmpty++
			}
		}
		st.Case(f.desc(), nonEmpty >= 2 && emptyBefore && res.MaxHeight >= 1)
	})
}

// C18 (merge iterator): sorted multiset union; SeekFirst/Seek reposition at any point.
func makePropC18Merger(test string) func(t *rapid.T) {
	st := ev.Get("C18", test)
	return func(t *rapid.T) {
		sched.SeedRand(t)
		f := &failer{t: t, st: st}
		nl := rapid.IntRange(0, 5).Draw(t, "nlists")
		var all []int
		var iters []*skiplist.Iterator
		for i := 0; i < nl; i++ {
			s := skiplist.New()
			buf := s.MakeBuf()
			n := rapid.IntRange(0, 12).Draw(t, "len")
			var vals []int
			seen := map[int]bool{}
			for j := 0; j < n; j++ {
				v := rapid.IntRange(0, 30).Draw(t, "val")
				if !seen[v] {
					seen[v] = true
					vals = append(vals, v)
					s.Insert(skiplist.NewIntKeyItem(v), skiplist.CompareInt, buf, &s.Stats)
					all = append(all, v)
				}
			}
			sort.Ints(vals)
			f.logf("list%d=%v", i, vals)
			iters = append(iters, s.NewIterator(skiplist.CompareInt, s.MakeBuf()))
		}
		sort.Ints(all)
		mit := skiplist.NewMergeIterator(iters)
		pos := -1 // index into all; -1 = not positioned
		nexts := 0
		reseekAfterNext := false
		check := func() {
			valid := mit.Valid()
			if valid != (pos < len(all)) {
				f.failf("merger-valid", "Valid()=%v at model position %d of %d", valid, pos, len(all))
			}
			if valid {
				if got := skiplist.IntFromItem(mit.Get()); got != all[pos] {
					f.failf("merger-position", "Get()=%d at model position %d, expected %d (union %v)", got, pos, all[pos], all)
				}
			}
		}
		nsteps := rapid.IntRange(1, 40).Draw(t, "steps")
		for i := 0; i < nsteps; i++ {
			switch c := rapid.IntRange(0, 9).Draw(t, "op"); {
			case c == 0:
				mit.SeekFirst()
				f.logf("seekfirst")
				pos = 0
				if nexts > 0 {
					reseekAfterNext = true
				}
				check()
			case c <= 2:
				x := rapid.IntRange(-1, 32).Draw(t, "target")
				found := mit.Seek(skiplist.NewIntKeyItem(x))
				f.logf("seek(%d)", x)
				pos = sort.SearchInts(all, x)
				if nexts > 0 {
					reseekAfterNext = true
				}
				wantFound := pos < len(all) && all[pos] == x
				if found != wantFound {
					f.failf("merger-seek-found", "Seek(%d) returned %v, present=%v", x, found, wantFound)
				}
				check()
			default:
				if pos < 0 || pos >= len(all) {
					continue
				}
				mit.Next()
				f.logf("next")
				pos++
				nexts++
				check()
			}
		}
		for _, it := range iters {
			it.Close()
		}
		st.Case(f.desc(), reseekAfterNext)
	}
}

func TestC18Merger(t *testing.T) {
	rapid.Check(t, makePropC18Merger("TestC18Merger"))
}

var _ = unsafe.Pointer(nil)

// FuzzC18Merger drives the merge iterator property with coverage-guided native fuzzing (thorough tier).
func FuzzC18Merger(f *testing.F) {
	f.Fuzz(rapid.MakeFuzz(makePropC18Merger("FuzzC18Merger")))
}
