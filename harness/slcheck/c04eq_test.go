package slcheck

import (
	"testing"

	"pgregory.net/rapid"

	"verif/lib/ev"
	"verif/lib/guard"
	"verif/lib/lin"
	"verif/lib/sched"
)

// C04, one-key contention: 2-3 threads delete and re-insert (with heights 1-4) the same one or two
// keys, user-managed memory in trap mode. This concentrates the schedules on the windows in which a
// marked node, its re-inserted twin and the unlink passes of deleter and inserter meet (a marked node
// hidden behind an equal item; an upper level linked after the unlink pass). Oracle as in layer A.
func TestC04Equal(t *testing.T) {
	st := ev.Get("C04", "TestC04Equal")
	rapid.Check(t, func(t *rapid.T) {
		sched.SeedRand(t)
		f := &failer{t: t, st: st}
		w := newSLWorld(f, true, guard.Trap)
		defer w.release()
		nkeys := rapid.IntRange(1, 2).Draw(t, "nkeys")
		pre := []int{-5, 50}
		lv := []int{rapid.IntRange(2, 4).Draw(t, "lo"), rapid.IntRange(2, 4).Draw(t, "hi")}
		for k := 0; k < nkeys; k++ {
			if rapid.IntRange(0, 3).Draw(t, "present") > 0 {
				pre = append(pre, k)
				lv = append(lv, rapid.IntRange(1, 4).Draw(t, "prelevel"))
			}
		}
		w.prepopulate(pre, lv)
		nth := rapid.IntRange(2, 3).Draw(t, "threads")
		scripts := make([][]slOp, nth)
		for i := range scripts {
			n := rapid.IntRange(2, 6).Draw(t, "oplen")
			for j := 0; j < n; j++ {
				k := rapid.IntRange(0, nkeys-1).Draw(t, "key")
				if rapid.Bool().Draw(t, "ins") {
					scripts[i] = append(scripts[i], slOp{kind: lin.Insert, key: k, level: rapid.IntRange(1, 4).Draw(t, "level")})
				} else {
					scripts[i] = append(scripts[i], slOp{kind: lin.Delete, key: k})
				}
			}
		}
		picker, pdesc := sched.DrawPicker(t, nth, 500)
		f.logf("c04equal pre=%v levels=%v scripts=%s sched=%s", pre, lv, fmtSLScripts(scripts), pdesc)
		if fail := w.runScripts(scripts, picker, nil, nil); fail != nil {
			f.failf(w.failSig(fail), "%s%v", w.describeFault(fail), fail)
		}
		got := w.finalOps([]int{0, 1, -5, 50}[:nkeys+0])
		_ = got
		if bad, ok := lin.Check(w.ops, w.initial); !ok {
			f.failf("not-linearizable", "history is not linearizable\n  %s", bad)
		}
		res := w.walkCheck("quiescent-")
		if rep := w.arena.Report(); len(rep.Bad) > 0 {
			f.failf("bad-free", "allocator: %v", rep)
		}
		if live := w.arena.LiveCount(); live != 2*res.Level0Linked+2 {
			f.failf("unlinked-not-freed", "at quiescence the allocator holds %d live blocks, %d nodes (one item each, +2 sentinels) are linked", live, res.Level0Linked)
		}
		st.Case(f.desc(), w.s.Preempts > 0 && w.arena.Frees > 0)
		st.AddExtra("sched-steps", int64(w.s.Steps))
	})
}
