package slcheck

import (
	"fmt"
	"sync"
	"testing"
	"unsafe"

	"github.com/couchbase/nitro/skiplist"
	"pgregory.net/rapid"

	"verif/lib/ev"
	"verif/lib/guard"
	"verif/lib/sched"
)

type bop struct {
	kind int // 0 acquire, 1 release, 2 flush
	arg  int // release: which held token (mod); flush: flush id
}

type bev struct {
	kind  string // acqcall acqret relcall relret flushcall flushret destruct
	th    int
	tok   *skiplist.BarrierSession
	k     int
	clock int64
}

type flushRef struct{ k int }

// runBarrierCase runs generated scripts of Acquire/Release/FlushSession on the access
// barrier under a generated schedule and returns the totally ordered event log.
func runBarrierCase(t *rapid.T, f *failer) (log []bev, nflush int, ab *skiplist.AccessBarrier, s *sched.Sched, arena *guard.Arena) {
	nth := rapid.IntRange(2, 5).Draw(t, "threads")
	scripts := make([][]bop, nth)
	for i := range scripts {
		n := rapid.IntRange(1, 6).Draw(t, "oplen")
		held := 0
		for j := 0; j < n; j++ {
			k := rapid.IntRange(0, 5).Draw(t, "op")
			switch {
			case k <= 1:
				scripts[i] = append(scripts[i], bop{kind: 0})
				held++
			case k <= 3 && held > 0:
				scripts[i] = append(scripts[i], bop{kind: 1, arg: rapid.IntRange(0, 7).Draw(t, "which")})
				held--
			default:
				scripts[i] = append(scripts[i], bop{kind: 2, arg: nflush})
				nflush++
			}
		}
		for ; held > 0; held-- {
			scripts[i] = append(scripts[i], bop{kind: 1, arg: 0})
		}
	}
	picker, pdesc := sched.DrawPicker(t, nth, 300)
	f.logf("barrier scripts=%v sched=%s", fmtScripts(scripts), pdesc)

	arena = guard.Get(guard.Quarantine)
	refs := make([]*flushRef, nflush)
	for i := range refs {
		refs[i] = &flushRef{k: i}
	}
	s = sched.New(picker)
	cfg := skiplist.DefaultConfig()
	cfg.UseMemoryMgmt = true
	cfg.Malloc = arena.Malloc
	cfg.Free = arena.Free
	cfg.BarrierDestructor = func(ref unsafe.Pointer) {
		log = append(log, bev{kind: "destruct", th: -1, k: (*flushRef)(ref).k, clock: s.Tick()})
	}
	sl := skiplist.NewWithConfig(cfg)
	ab = sl.GetAccesBarrier()
	// start deep into the sequence-number space in a fifth of the cases (state after that many flushes)
	if rapid.IntRange(0, 4).Draw(t, "deep") == 0 {
		base := []uint64{1 << 15, 1 << 16, 1 << 31, 1 << 32, 1 << 62}[rapid.IntRange(0, 4).Draw(t, "seqbase")]
		start := base - uint64(rapid.IntRange(0, 6).Draw(t, "seqback"))
		ab.VerifFastForward(start)
		f.logf("fast-forward seqno=%d", start)
	}
	for i := 0; i < nth; i++ {
		script := scripts[i]
		s.Go(func(th *sched.Thread) {
			var held []*skiplist.BarrierSession
			for _, o := range script {
				th.InOp = true
				switch o.kind {
				case 0:
					log = append(log, bev{kind: "acqcall", th: th.ID, clock: s.Tick()})
					tok := ab.Acquire()
					log = append(log, bev{kind: "acqret", th: th.ID, tok: tok, clock: s.Tick()})
					if tok.VerifClosed() {
						panic(fmt.Sprintf("CLOSED-TOKEN: Acquire returned a session that is already terminated (seqno %d)", tok.VerifSeqno()))
					}
					held = append(held, tok)
				case 1:
					i := o.arg % len(held)
					tok := held[i]
					held = append(held[:i], held[i+1:]...)
					log = append(log, bev{kind: "relcall", th: th.ID, tok: tok, clock: s.Tick()})
					ab.Release(tok)
					log = append(log, bev{kind: "relret", th: th.ID, tok: tok, clock: s.Tick()})
				case 2:
					log = append(log, bev{kind: "flushcall", th: th.ID, k: o.arg, clock: s.Tick()})
					ab.FlushSession(unsafe.Pointer(refs[o.arg]))
					log = append(log, bev{kind: "flushret", th: th.ID, k: o.arg, clock: s.Tick()})
				}
				th.InOp = false
				s.Yield(0)
			}
		})
	}
	skiplist.VerifSetHooks(s.Yield, func(m *sync.Mutex) { s.LockWait(m) })
	fail := s.Run()
	skiplist.VerifSetHooks(nil, nil)
	if fail != nil {
		sig := "barrier-" + fail.Kind
		if str, ok := fail.Value.(string); ok && len(str) > 12 && str[:12] == "CLOSED-TOKEN" {
			sig = "acquire-returned-closed-session"
		}
		arena.Release() // parked threads never run again
		f.failf(sig, "%v\nlog: %s", fail, fmtLog(log))
	}
	_ = refs
	return
}

func fmtScripts(scripts [][]bop) string {
	s := ""
	for i, sc := range scripts {
		s += fmt.Sprintf(" T%d[", i)
		for _, o := range sc {
			switch o.kind {
			case 0:
				s += "A "
			case 1:
				s += fmt.Sprintf("R%d ", o.arg)
			case 2:
				s += fmt.Sprintf("F%d ", o.arg)
			}
		}
		s += "]"
	}
	return s
}

func fmtLog(log []bev) string {
	s := ""
	for _, e := range log {
		switch e.kind {
		case "destruct":
			s += fmt.Sprintf("D%d ", e.k)
		case "flushcall", "flushret":
			s += fmt.Sprintf("T%d:%s%d ", e.th, e.kind, e.k)
		default:
			s += fmt.Sprintf("T%d:%s ", e.th, e.kind)
		}
	}
	return s
}

// checkBarrierSafety is the C16 oracle over the totally ordered event log.
func checkBarrierSafety(f *failer, log []bev, nflush int) (parkedAcrossFlush bool, outOfOrderTermination bool) {
	destructAt := make([]int, nflush)
	flushCall := make([]int, nflush)
	flushRet := make([]int, nflush)
	for i := range destructAt {
		destructAt[i], flushCall[i], flushRet[i] = -1, -1, -1
	}
	for i, e := range log {
		switch e.kind {
		case "destruct":
			if destructAt[e.k] >= 0 {
				f.failf("destructor-twice", "destructor for flush %d ran twice\nlog: %s", e.k, fmtLog(log))
			}
			destructAt[e.k] = i
		case "flushcall":
			flushCall[e.k] = i
		case "flushret":
			flushRet[e.k] = i
		}
	}
	// order between flushes
	for a := 0; a < nflush; a++ {
		for b := 0; b < nflush; b++ {
			if a == b || flushRet[a] < 0 || flushCall[b] < 0 || flushRet[a] > flushCall[b] {
				continue
			}
			// flush a returned before flush b was called
			if destructAt[b] >= 0 && (destructAt[a] < 0 || destructAt[a] > destructAt[b]) {
				f.failf("destructor-order", "flush %d returned before flush %d was called, but the destructor of %d ran first (or alone)\nlog: %s", a, b, b, fmtLog(log))
			}
		}
	}
	// accessors acquired before a flush must have released before its destructor
	type acc struct{ acqRet, relCall int }
	open := map[string][]int{} // key th/tok -> stack of acqret indexes
	var accs []acc
	for i, e := range log {
		switch e.kind {
		case "acqret":
			k := fmt.Sprintf("%d/%p", e.th, e.tok)
			open[k] = append(open[k], i)
		case "relcall":
			k := fmt.Sprintf("%d/%p", e.th, e.tok)
			st := open[k]
			accs = append(accs, acc{st[len(st)-1], i})
			open[k] = st[:len(st)-1]
		}
	}
	for _, st := range open {
		for _, a := range st {
			accs = append(accs, acc{a, 1 << 30})
		}
	}
	for _, a := range accs {
		for k := 0; k < nflush; k++ {
			if flushCall[k] >= 0 && a.acqRet < flushCall[k] && destructAt[k] >= 0 && destructAt[k] < a.relCall {
				f.failf("destructor-before-release", "an accessor acquired (event %d) before flush %d was called is still inside (release at event %d) when the destructor runs (event %d)\nlog: %s",
					a.acqRet, k, a.relCall, destructAt[k], fmtLog(log))
			}
			// classification: accessor parked across a flush
			if flushCall[k] >= 0 && a.acqRet > flushCall[k] && flushRet[k] > a.acqRet {
				parkedAcrossFlush = true
			}
		}
	}
	// classification: acquire call before flush call, return after flush return => the accessor was parked inside Acquire across the flush
	for i, e := range log {
		if e.kind != "acqcall" {
			continue
		}
		for j := i + 1; j < len(log); j++ {
			if log[j].kind == "acqret" && log[j].th == e.th {
				for k := 0; k < nflush; k++ {
					if flushCall[k] > i && flushCall[k] < j {
						parkedAcrossFlush = true
					}
				}
				break
			}
		}
	}
	last := -1
	for _, e := range log {
		if e.kind == "destruct" {
			if e.k < last {
				outOfOrderTermination = true
			}
			last = e.k
		}
	}
	return
}

// C16: access barrier safety.
func TestC16(t *testing.T) {
	st := ev.Get("C16", "TestC16")
	rapid.Check(t, func(t *rapid.T) {
		sched.SeedRand(t)
		f := &failer{t: t, st: st}
		log, nflush, _, s, arena := runBarrierCase(t, f)
		defer arena.Release()
		parked, _ := checkBarrierSafety(f, log, nflush)
		st.Case(f.desc(), nflush > 0 && (parked || s.Preempts > 0), fmt.Sprintf("flushes-%d", min(nflush, 5)))
		st.AddExtra("sched-steps", int64(s.Steps))
		st.AddExtra("preemptions", int64(s.Preempts))
		if parked {
			st.Class("accessor-parked-across-flush", 1)
		}
	})
}

// C17: access barrier liveness at quiescence.
func TestC17(t *testing.T) {
	st := ev.Get("C17", "TestC17")
	rapid.Check(t, func(t *rapid.T) {
		sched.SeedRand(t)
		f := &failer{t: t, st: st}
		log, nflush, ab, s, arena := runBarrierCase(t, f)
		defer arena.Release()
		checkBarrierSafety(f, log, nflush)
		destructs := 0
		overlappedTermination := false
		lastKind := ""
		for _, e := range log {
			if e.kind == "destruct" {
				destructs++
			}
			lastKind = e.kind
		}
		_ = lastKind
		alloc, freed, queued, _ := ab.GetStats()
		if destructs != nflush || queued != 0 || freed != alloc-1 {
			f.failf("barrier-pending-at-quiescence", "all tokens released and no call in progress, but %d of %d flushed sessions were destructed (stats: allocated=%d freed=%d queued=%d)\nlog: %s",
				destructs, nflush, alloc, freed, queued, fmtLog(log))
		}
		if s.PointHits[8] > 0 && s.PointHits[9] > 0 && nflush >= 2 {
			overlappedTermination = s.Preempts > 0
		}
		st.Case(f.desc(), nflush >= 2 && overlappedTermination)
		st.AddExtra("sched-steps", int64(s.Steps))
	})
}
