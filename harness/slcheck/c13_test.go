package slcheck

import (
	"fmt"
	"testing"

	"github.com/couchbase/nitro/skiplist"
	"pgregory.net/rapid"

	"verif/lib/ev"
	"verif/lib/guard"
	"verif/lib/lin"
	"verif/lib/sched"
)

// runC13Case: generated scripts of Insert2/Delete/DeleteNode/Lookup over a small key
// space under a generated schedule; porcupine per key; final scan; C14 walk.
func runC13Case(t *rapid.T, st *ev.Stats, f *failer) (nontrivial bool, w *slWorld, contended bool) {
	return runC13CaseR(t, st, f, false)
}

// runC13CaseR optionally adds scanning iterator threads (they help unlinking marked nodes, which
// is part of what the statistics must account for).
func runC13CaseR(t *rapid.T, st *ev.Stats, f *failer, withReaders bool) (nontrivial bool, w *slWorld, contended bool) {
	mm := rapid.Bool().Draw(t, "mm")
	w = newSLWorld(f, mm, guard.Trap)
	keySpace := rapid.IntRange(3, 5).Draw(t, "keyspace")
	// pre-populate: tall nodes outside the key space, plus some keys of the key space
	pre := []int{100, 101, 102}
	lv := []int{rapid.IntRange(1, 4).Draw(t, "tall"), rapid.IntRange(1, 4).Draw(t, "tall"), rapid.IntRange(0, 4).Draw(t, "tall")}
	var sharedKeys []int
	for k := 0; k < keySpace; k++ {
		if rapid.Bool().Draw(t, "prekey") {
			pre = append(pre, k)
			lv = append(lv, rapid.IntRange(0, 3).Draw(t, "prelevel"))
			sharedKeys = append(sharedKeys, k)
		}
	}
	w.prepopulate(pre, lv)
	var shared []*skiplist.Node
	if !mm {
		buf := w.sl.MakeBuf()
		for _, k := range sharedKeys {
			_, n, found := w.sl.Lookup(w.item(k), skiplist.CompareInt, buf, &w.sl.Stats)
			if !found {
				f.failf("setup", "prepopulated key %d not found", k)
			}
			shared = append(shared, n)
		}
	}
	nth := rapid.IntRange(2, 4).Draw(t, "threads")
	scripts := drawSLScripts(t, nth, 5, keySpace, !mm, len(shared))
	nreaders := 0
	if withReaders {
		nreaders = rapid.IntRange(0, 2).Draw(t, "readers")
	}
	if nreaders > 0 {
		w.extra = func(s *sched.Sched) {
			for r := 0; r < nreaders; r++ {
				s.Go(func(th *sched.Thread) {
					for pass := 0; pass < 2; pass++ {
						it := w.sl.NewIterator(skiplist.CompareInt, w.sl.MakeBuf())
						for it.SeekFirst(); it.Valid(); it.Next() {
							s.Yield(0)
						}
						it.Close()
						s.Yield(0)
					}
				})
			}
		}
	}
	picker, pdesc := sched.DrawPicker(t, nth+nreaders, 400)
	f.logf("skiplist mm=%v pre=%v levels=%v scripts=%s readers=%d sched=%s", mm, pre, lv, fmtSLScripts(scripts), nreaders, pdesc)
	if fail := w.runScripts(scripts, picker, shared, nil); fail != nil {
		f.failf(w.failSig(fail), "%s%v", w.describeFault(fail), fail)
	}
	var ks []int
	for k := 0; k < keySpace; k++ {
		ks = append(ks, k)
	}
	ks = append(ks, 100, 101, 102)
	got := w.finalOps(ks)
	for i := 1; i < len(got); i++ {
		if got[i-1] >= got[i] {
			f.failf("final-scan-order", "scan after quiescence is not strictly increasing: %v", got)
		}
	}
	if bad, ok := lin.Check(w.ops, w.initial); !ok {
		f.failf("not-linearizable", "history is not linearizable with respect to set semantics (final scan %v)\n  %s", got, bad)
	}
	// each node deleted successfully by exactly one caller
	delBy := map[int64]int{}
	for _, o := range w.ops {
		if o.Kind == lin.DeleteNode && o.Ok {
			delBy[o.NodeArg]++
		}
	}
	for n, c := range delBy {
		if c > 1 {
			f.failf("deletenode-twice", "node n%d was deleted successfully by %d callers", n, c)
		}
	}
	w.walkCheck("quiescent-")
	if mm {
		if rep := w.arena.Report(); len(rep.Bad) > 0 {
			f.failf("bad-free", "allocator: %v", rep)
		}
	}
	// non-trivial: >=2 overlapping operations on one key with a pre-emption inside an operation
	overlap := false
	for i, a := range w.ops {
		for _, b := range w.ops[i+1:] {
			if a.Key == b.Key && a.Th != b.Th && a.Th < 90 && b.Th < 90 && a.Call < b.Ret && b.Call < a.Ret {
				overlap = true
				if (a.Kind == lin.Delete || a.Kind == lin.DeleteNode) && (b.Kind == lin.Delete || b.Kind == lin.DeleteNode) {
					contended = true
				}
			}
		}
	}
	return overlap && w.s.Preempts > 0, w, contended
}

// C13: the lock-free skiplist is a linearizable ordered set.
func TestC13(t *testing.T) {
	st := ev.Get("C13", "TestC13")
	rapid.Check(t, func(t *rapid.T) {
		sched.SeedRand(t)
		f := &failer{t: t, st: st}
		nt, w, _ := runC13Case(t, st, f)
		defer w.release()
		cls := "go-heap"
		if w.mm {
			cls = "user-memory"
		}
		st.Case(f.desc(), nt, cls)
		st.AddExtra("sched-steps", int64(w.s.Steps))
		st.AddExtra("preemptions", int64(w.s.Preempts))
		st.AddExtra("operations", int64(len(w.ops)))
	})
}

// C14 (dedicated generator): structure and statistics at quiescence after
// concurrent histories with contended deletes. The same predicate also runs at
// the quiescent points of C13, C18 and C04.
func TestC14(t *testing.T) {
	st := ev.Get("C14", "TestC14")
	rapid.Check(t, func(t *rapid.T) {
		sched.SeedRand(t)
		f := &failer{t: t, st: st}
		_, w, contended := runC13CaseR(t, st, f, true)
		defer w.release()
		// a second, sequential phase on the same list, then another walk
		buf := w.sl.MakeBuf()
		n := rapid.IntRange(0, 12).Draw(t, "seqops")
		for i := 0; i < n; i++ {
			k := rapid.IntRange(0, 6).Draw(t, "k")
			if rapid.Bool().Draw(t, "ins") {
				w.insert(k, buf, rapid.IntRange(0, 5).Draw(t, "lvl"), &w.sl.Stats)
				f.logf("seq-insert(%d)", k)
			} else if !w.mm {
				w.sl.Delete(w.item(k), skiplist.CompareInt, buf, &w.sl.Stats)
				f.logf("seq-delete(%d)", k)
			}
		}
		res := w.walkCheck("sequential-")
		st.Case(f.desc(), contended, fmt.Sprintf("maxheight-%d", res.MaxHeight))
		st.AddExtra("walks", 2)
	})
}
