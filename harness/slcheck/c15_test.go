package slcheck

import (
	"fmt"
	"os"
	"sync"
	"testing"
	"unsafe"

	"github.com/couchbase/nitro/skiplist"
	"pgregory.net/rapid"

	"verif/lib/ev"
	"verif/lib/guard"
	"verif/lib/sched"
)

type mutOp struct {
	insert bool
	key    int // volatile key, or -1: "the reader's current key or its predecessor" (resolved at run time)
	rel    int // for key == -1: 0 current, 1 predecessor volatile key, 2 successor volatile key
	level  int
}

type mutRec struct {
	insert    bool
	key       int
	ok        bool
	call, ret int64
}

type getRec struct {
	key    int
	at     int64
	arrive int64 // clock just before the Seek/Next call that moved the cursor onto this item
}

// C15: skiplist iterators stay ordered and complete under concurrent modification.
// Stable keys are even (never touched), volatile keys are odd.
func TestC15(t *testing.T) {
	st := ev.Get("C15", "TestC15")
	rapid.Check(t, func(t *rapid.T) {
		sched.SeedRand(t)
		f := &failer{t: t, st: st}
		mm := rapid.Bool().Draw(t, "mm")
		w := newSLWorld(f, mm, guard.Trap)
		defer w.release()
		nstable := rapid.IntRange(2, 6).Draw(t, "nstable")
		maxKey := 2 * nstable // stable keys 0,2,..,2(nstable-1); volatile 1,3,..,maxKey-1 and -1 (below), maxKey+1 (above)
		var pre, lv []int
		for i := 0; i < nstable; i++ {
			pre = append(pre, 2*i)
			lv = append(lv, rapid.IntRange(0, 3).Draw(t, "slevel"))
		}
		volatile := []int{-1}
		for k := 1; k <= maxKey+1; k += 2 {
			volatile = append(volatile, k)
		}
		initV := map[int]bool{}
		for _, k := range volatile {
			if rapid.Bool().Draw(t, "vpre") {
				pre = append(pre, k)
				lv = append(lv, rapid.IntRange(0, 3).Draw(t, "vlevel"))
				initV[k] = true
			}
		}
		w.prepopulate(pre, lv)
		nmut := rapid.IntRange(1, 3).Draw(t, "mutators")
		mscripts := make([][]mutOp, nmut)
		for i := range mscripts {
			n := rapid.IntRange(1, 6).Draw(t, "mlen")
			for j := 0; j < n; j++ {
				o := mutOp{insert: rapid.Bool().Draw(t, "ins"), level: rapid.IntRange(0, 3).Draw(t, "mlevel")}
				if rapid.IntRange(0, 2).Draw(t, "aim") == 0 {
					o.key = -100
					o.rel = rapid.IntRange(0, 2).Draw(t, "rel")
				} else {
					o.key = volatile[rapid.IntRange(0, len(volatile)-1).Draw(t, "vkey")]
				}
				mscripts[i] = append(mscripts[i], o)
			}
		}
		useSeek := rapid.Bool().Draw(t, "useseek")
		seekKey := rapid.IntRange(-2, maxKey+2).Draw(t, "seekkey")
		refresh := []int{0, 1, 2, 3}[rapid.IntRange(0, 3).Draw(t, "refresh")]
		pauseAt := rapid.IntRange(-1, 6).Draw(t, "pauseat")
		manualRefreshAt := rapid.IntRange(-1, 6).Draw(t, "manualrefreshat") // explicit Refresh() after the n-th item was consumed
		reseekAfterRefresh := rapid.IntRange(0, 2).Draw(t, "reseekafterrefresh") == 0
		picker, pdesc := sched.DrawPicker(t, nmut+1, 500)
		f.logf("c15 mm=%v stable=%d pre=%v mut=%v seek=%v/%d refresh=%d pause@%d manualrefresh@%d sched=%s", mm, nstable, pre, mscripts, useSeek, seekKey, refresh, pauseAt, manualRefreshAt, pdesc)

		s := sched.New(picker)
		w.s = s
		var gets []getRec
		var muts []mutRec
		var scanStart, scanEnd int64
		readerCur := -1000 // key the reader currently stands on
		cursorDeleted := false
		// reader
		s.Go(func(th *sched.Thread) {
			buf := w.sl.MakeBuf()
			it := w.sl.NewIterator(skiplist.CompareInt, buf)
			if refresh > 0 {
				it.SetRefreshInterval(refresh)
			}
			th.InOp = true
			scanStart = s.Tick()
			arrive := scanStart
			if useSeek {
				it.Seek(w.item(seekKey))
			} else {
				it.SeekFirst()
			}
			n := 0
			for it.Valid() {
				k := skiplist.IntFromItem(it.Get())
				if mm && !w.arena.IsLive(unsafe.Pointer(it.GetNode())) {
					panic(fmt.Sprintf("STALE-NODE: iterator stands on node of key %d which has been freed", k))
				}
				gets = append(gets, getRec{k, s.Tick(), arrive})
				if os.Getenv("C15DBG") != "" {
					fmt.Printf("C15DBG reader get %d node=%p at %d\n", k, it.GetNode(), s.Clock)
				}
				readerCur = k
				if n == pauseAt {
					it.Pause()
					s.Yield(0)
					it.Resume()
					// after a pause the position must be re-established by the caller
					it.Seek(w.item(k))
					if !it.Valid() {
						break
					}
					if k2 := skiplist.IntFromItem(it.Get()); k2 != k {
						// the key vanished while paused; continue from its successor
						gets = append(gets, getRec{k2, s.Tick(), arrive})
						readerCur = k2
					}
				}
				s.Yield(0)
				refreshedAt := int64(0)
				if n == manualRefreshAt {
					// Refresh may already move the cursor: when the consumed item was deleted meanwhile it lands on the
					// successor and the next Next() stays there. The successor's "cursor moved onto it" stamp is therefore
					// the start of the Refresh, not of that Next().
					refreshedAt = s.Tick()
					it.Refresh()
					s.Yield(0)
					if reseekAfterRefresh {
						// re-position explicitly after the refresh: the scan continues from the first item >= k,
						// which is reported (again, if k itself is still there)
						it.Seek(w.item(k))
						if !it.Valid() {
							break
						}
						k2 := skiplist.IntFromItem(it.Get())
						if k2 != k {
							gets = append(gets, getRec{k2, s.Tick(), arrive})
							readerCur = k2
						}
					}
				}
				arrive = s.Tick()
				if refreshedAt != 0 {
					arrive = refreshedAt
				}
				it.Next()
				n++
				if n > 200 {
					panic("SCAN-TOO-LONG: more than 200 items returned")
				}
			}
			scanEnd = s.Tick()
			th.InOp = false
			it.Close()
		})
		for i := range mscripts {
			script := mscripts[i]
			sts := &skiplist.Stats{}
			sts.IsLocal(true)
			w.sts = append(w.sts, sts)
			s.Go(func(th *sched.Thread) {
				buf := w.sl.MakeBuf()
				for _, o := range script {
					k := o.key
					if k == -100 {
						c := readerCur
						switch o.rel {
						case 0:
							k = c
						case 1:
							k = c - 1
						default:
							k = c + 1
						}
						if k%2 == 0 {
							k-- // never touch stable keys
						}
						if k < -1 || k > maxKey+1 {
							k = 1
						}
					}
					if k%2 == 0 {
						panic("harness: mutator aimed at a stable key")
					}
					rec := mutRec{insert: o.insert, key: k, call: s.Tick()}
					th.InOp = true
					if o.insert {
						_, rec.ok = w.insert(k, buf, o.level, sts)
					} else if !mm {
						rec.ok = w.sl.Delete(w.item(k), skiplist.CompareInt, buf, sts)
					} else {
						tok := w.ab.Acquire()
						_, curr, found := w.sl.Lookup(w.item(k), skiplist.CompareInt, buf, sts)
						if found && w.sl.DeleteNode2(curr, skiplist.CompareInt, buf, sts) {
							rec.ok = true
							curr.SetLink(nil)
							w.ab.FlushSession(unsafe.Pointer(curr))
						}
						w.ab.Release(tok)
					}
					th.InOp = false
					rec.ret = s.Tick()
					if os.Getenv("C15DBG") != "" {
						fmt.Printf("C15DBG T%d %+v level=%d\n", th.ID, rec, o.level)
					}
					if rec.ok && !o.insert && (k == readerCur || k == readerCur-1) && scanStart > 0 && scanEnd == 0 {
						cursorDeleted = true
					}
					muts = append(muts, rec)
					s.Yield(0)
				}
			})
		}
		skiplist.VerifSetHooks(s.Yield, func(m *sync.Mutex) { s.LockWait(m) })
		fail := s.Run()
		skiplist.VerifSetHooks(nil, nil)
		for _, sts := range w.sts {
			w.sl.Stats.Merge(sts)
		}
		w.sts = nil
		if fail != nil {
			sig := w.failSig(fail)
			if str, ok := fail.Value.(string); ok && len(str) > 10 && str[:10] == "STALE-NODE" {
				sig = "iterator-node-freed"
			}
			f.failf(sig, "%s%v", w.describeFault(fail), fail)
		}
		desc := func() string { return fmt.Sprintf("gets=%v muts=%v scan=[%d,%d]", gets, muts, scanStart, scanEnd) }
		// (1) never goes backwards; equal neighbours only after delete + re-insert in between
		for i := 1; i < len(gets); i++ {
			a, b := gets[i-1], gets[i]
			if b.key < a.key {
				f.failf("iterator-backwards", "iterator went backwards: %d after %d\n%s", b.key, a.key, desc())
			}
			if b.key == a.key {
				ok := false
				for _, m := range muts {
					// "meanwhile" starts when the cursor moved onto the first of the two (it may have been
					// parked on that node, since deleted, long before it reported it)
					if m.insert && m.ok && m.key == a.key && m.call < b.at && m.ret > a.arrive {
						ok = true
					}
				}
				if pauseAt >= 0 {
					ok = true // re-seek after a pause legitimately lands on the same key
				}
				if !ok {
					f.failf("iterator-duplicate", "item %d returned twice in a row without a re-insert in between\n%s", a.key, desc())
				}
			}
		}
		// (2) only items present at some moment of the scan
		for _, g := range gets {
			if g.key%2 == 0 {
				if g.key < 0 || g.key >= 2*nstable {
					f.failf("iterator-invented", "iterator returned %d which was never in the list\n%s", g.key, desc())
				}
				continue
			}
			possible := initV[g.key]
			if possible {
				// initially present: absent for the whole scan only if a successful delete returned before the scan
				// started and no successful insert could have followed it
				for _, d := range muts {
					if !d.insert && d.ok && d.key == g.key && d.ret < scanStart {
						re := false
						for _, m := range muts {
							if m.insert && m.ok && m.key == g.key && m.ret > d.call {
								re = true
							}
						}
						if !re {
							possible = false
						}
					}
				}
			}
			for _, m := range muts {
				if m.insert && m.ok && m.key == g.key && m.call <= g.at {
					// absent again for the whole scan?
					gone := false
					for _, d := range muts {
						if !d.insert && d.ok && d.key == g.key && d.call > m.ret && d.ret < scanStart {
							re := false
							for _, m2 := range muts {
								if m2.insert && m2.ok && m2.key == g.key && m2.ret > d.call {
									re = true
								}
							}
							if !re {
								gone = true
							}
						}
					}
					if !gone {
						possible = true
					}
				}
			}
			if !possible {
				f.failf("iterator-absent-item", "iterator returned %d which was not present at any moment of the scan\n%s", g.key, desc())
			}
		}
		// (3) every stable item >= start exactly once; Seek lands with no stable item skipped
		start := -1 << 30
		if useSeek {
			start = seekKey
		}
		count := map[int]int{}
		for _, g := range gets {
			count[g.key]++
		}
		for i := 0; i < nstable; i++ {
			k := 2 * i
			want := 0
			if k >= start {
				want = 1
			}
			got := count[k]
			if pauseAt >= 0 && got == 2 && want == 1 {
				continue // re-seek after pause re-reports the current key
			}
			if got != want {
				f.failf("iterator-stable-item", "stable item %d (present for the whole scan) was returned %d times, expected %d (scan start %d)\n%s", k, got, want, start, desc())
			}
		}
		if useSeek && len(gets) > 0 && gets[0].key < seekKey {
			f.failf("iterator-seek", "Seek(%d) landed on %d\n%s", seekKey, gets[0].key, desc())
		}
		res := w.walkCheck("quiescent-")
		if mm {
			if rep := w.arena.Report(); len(rep.Bad) > 0 {
				f.failf("bad-free", "allocator: %v", rep)
			}
			// the reader closed its iterator and every mutator finished: nothing unlinked may be left unfreed
			if live := w.arena.LiveCount(); live != 2*res.Level0Linked+2 {
				f.failf("unlinked-not-freed", "at quiescence (iterator closed) the allocator holds %d live blocks, %d nodes (one item each, +2 sentinels) are linked", live, res.Level0Linked)
			}
		}
		st.Case(f.desc(), cursorDeleted)
		st.AddExtra("gets", int64(len(gets)))
		st.AddExtra("sched-steps", int64(s.Steps))
	})
}
