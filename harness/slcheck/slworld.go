package slcheck

import (
	"fmt"
	"os"
	"runtime/debug"
	"sort"
	"sync"
	"unsafe"

	"github.com/couchbase/nitro/skiplist"
	"pgregory.net/rapid"

	"verif/lib/guard"
	"verif/lib/lin"
	"verif/lib/sched"
	"verif/lib/walk"
)

// slWorld is a skiplist used directly by scripted threads under the scheduler.
type slWorld struct {
	f      *failer
	mm     bool
	arena  *guard.Arena
	sl     *skiplist.Skiplist
	ab     *skiplist.AccessBarrier
	s      *sched.Sched
	pins   []unsafe.Pointer // Go-heap items referenced only from arena memory
	nodeID map[*skiplist.Node]int64
	nextID int64
	ops    []lin.Op
	sts    []*skiplist.Stats
	freed  map[*skiplist.Node]bool
	// contended deletes: two helpers raced for one unlink / two deleters for one node
	contended bool
	initial   map[string]string
	extra     func(s *sched.Sched) // registers additional controlled threads (readers)
}

func newSLWorld(f *failer, mm bool, mode guard.Mode) *slWorld {
	w := &slWorld{f: f, mm: mm, nodeID: map[*skiplist.Node]int64{}, freed: map[*skiplist.Node]bool{}, initial: map[string]string{}}
	cfg := skiplist.DefaultConfig()
	if mm {
		w.arena = guard.Get(mode)
		cfg.UseMemoryMgmt = true
		cfg.Malloc = w.arena.Malloc
		cfg.Free = w.arena.Free
		cfg.BarrierDestructor = func(ref unsafe.Pointer) {
			// the client attached a list of unlinked nodes (chained through Link): free each
			for n := (*skiplist.Node)(ref); n != nil; {
				next := n.GetLink()
				w.freed[n] = true
				if os.Getenv("C15DBG") != "" {
					fmt.Printf("C15DBG free node %p key=%d level=%d\n", n, skiplist.IntFromItem(n.Item()), n.Level())
				}
				w.arena.Free(n.Item())
				w.sl.FreeNode(n, &w.sl.Stats)
				n = next
			}
		}
	}
	w.sl = skiplist.NewWithConfig(cfg)
	w.ab = w.sl.GetAccesBarrier()
	return w
}

func (w *slWorld) release() {
	if w.arena != nil {
		w.arena.Release()
		w.arena = nil
	}
}

func (w *slWorld) item(k int) unsafe.Pointer {
	p := skiplist.NewIntKeyItem(k)
	w.pins = append(w.pins, p)
	return p
}

// insert stores key k. With user-managed memory the stored item lives in the allocator too (as nitro's items
// do) and is released together with its node, so that a comparison against a reclaimed item faults.
func (w *slWorld) insert(k int, buf *skiplist.ActionBuffer, level int, sts *skiplist.Stats) (*skiplist.Node, bool) {
	var itm unsafe.Pointer
	if w.mm {
		itm = w.arena.Malloc(8)
		*(*int)(itm) = k
	} else {
		itm = w.item(k)
	}
	n, ok := w.sl.Insert2(itm, skiplist.CompareInt, nil, buf, levelFn(level), sts)
	if !ok && w.mm {
		w.arena.Free(itm) // a rejected insert's item stays with the caller
	}
	return n, ok
}

func (w *slWorld) id(n *skiplist.Node) int64 {
	if n == nil {
		return 0
	}
	if id, ok := w.nodeID[n]; ok {
		return id
	}
	w.nextID++
	w.nodeID[n] = w.nextID
	return w.nextID
}

// levelFn returns a randFn that makes NewLevel produce the given level (subject to the list level cap).
func levelFn(level int) func() float32 {
	n := 0
	return func() float32 {
		if n < level {
			n++
			return 0
		}
		return 1
	}
}

// prepopulate inserts keys sequentially (before the scheduler runs).
func (w *slWorld) prepopulate(keys []int, levels []int) {
	buf := w.sl.MakeBuf()
	for i, k := range keys {
		n, ok := w.insert(k, buf, levels[i], &w.sl.Stats)
		if !ok {
			w.f.failf("setup", "prepopulate insert %d failed", k)
		}
		w.id(n)
		w.initial[fmt.Sprint(k)] = ""
	}
}

type slOp struct {
	kind  int // lin.Insert / Delete / DeleteNode / Lookup
	key   int
	level int
	share int // DeleteNode: index into the shared handle table
}

func (o slOp) String() string {
	switch o.kind {
	case lin.Insert:
		return fmt.Sprintf("I%d^%d", o.key, o.level)
	case lin.Delete:
		return fmt.Sprintf("D%d", o.key)
	case lin.DeleteNode:
		return fmt.Sprintf("DN#%d", o.share)
	default:
		return fmt.Sprintf("L%d", o.key)
	}
}

func drawSLScripts(t *rapid.T, nth, maxOps, keySpace int, allowDeleteNode bool, nshared int) [][]slOp {
	scripts := make([][]slOp, nth)
	for i := range scripts {
		n := rapid.IntRange(1, maxOps).Draw(t, "oplen")
		for j := 0; j < n; j++ {
			var o slOp
			switch c := rapid.IntRange(0, 9).Draw(t, "op"); {
			case c <= 3:
				o = slOp{kind: lin.Insert, key: rapid.IntRange(0, keySpace-1).Draw(t, "key"), level: rapid.IntRange(0, 4).Draw(t, "level")}
			case c <= 6:
				o = slOp{kind: lin.Delete, key: rapid.IntRange(0, keySpace-1).Draw(t, "key")}
			case c == 7 && allowDeleteNode && nshared > 0:
				o = slOp{kind: lin.DeleteNode, share: rapid.IntRange(0, nshared-1).Draw(t, "share")}
			default:
				o = slOp{kind: lin.Lookup, key: rapid.IntRange(0, keySpace-1).Draw(t, "key")}
			}
			scripts[i] = append(scripts[i], o)
		}
	}
	return scripts
}

// runScripts executes the scripts as controlled threads. shared are node handles
// (from prepopulate) that DeleteNode operations may target from several threads.
func (w *slWorld) runScripts(scripts [][]slOp, picker sched.Picker, shared []*skiplist.Node, afterOp func()) *sched.Failure {
	s := sched.New(picker)
	w.s = s
	for i := range scripts {
		script := scripts[i]
		sts := &skiplist.Stats{}
		sts.IsLocal(true)
		w.sts = append(w.sts, sts)
		s.Go(func(th *sched.Thread) {
			buf := w.sl.MakeBuf()
			for _, o := range script {
				th.InOp = true
				op := lin.Op{Th: th.ID, Kind: o.kind, Key: fmt.Sprint(o.key), Call: s.Tick()}
				switch o.kind {
				case lin.Insert:
					n, ok := w.insert(o.key, buf, o.level, sts)
					op.Ok = ok
					if ok {
						op.Node = w.id(n)
					}
				case lin.Delete:
					if !w.mm {
						op.Ok = w.sl.Delete(w.item(o.key), skiplist.CompareInt, buf, sts)
					} else {
						// user-managed memory: the caller owns reclamation of what it unlinks
						tok := w.ab.Acquire()
						_, curr, found := w.sl.Lookup(w.item(o.key), skiplist.CompareInt, buf, sts)
						if found {
							if w.sl.DeleteNode2(curr, skiplist.CompareInt, buf, sts) {
								op.Ok = true
								curr.SetLink(nil)
								w.ab.FlushSession(unsafe.Pointer(curr))
							}
						}
						w.ab.Release(tok)
					}
				case lin.DeleteNode:
					n := shared[o.share]
					op.Key = fmt.Sprint(skiplist.IntFromItem(n.Item()))
					op.NodeArg = w.id(n)
					op.Ok = w.sl.DeleteNode(n, skiplist.CompareInt, buf, sts)
				case lin.Lookup:
					tok := w.ab.Acquire()
					_, curr, found := w.sl.Lookup(w.item(o.key), skiplist.CompareInt, buf, sts)
					op.Ok = found
					if found {
						op.Node = w.id(curr)
					}
					w.ab.Release(tok)
				}
				op.Ret = s.Tick()
				w.ops = append(w.ops, op)
				th.InOp = false
				if afterOp != nil {
					afterOp()
				}
				s.Yield(0)
			}
		})
	}
	if w.extra != nil {
		w.extra(s)
	}
	skiplist.VerifSetHooks(s.Yield, func(m *sync.Mutex) { s.LockWait(m) })
	fail := s.Run()
	skiplist.VerifSetHooks(nil, nil)
	for _, sts := range w.sts {
		w.sl.Stats.Merge(sts)
	}
	w.sts = nil
	return fail
}

// finalOps appends one observation per key from a scan after quiescence.
func (w *slWorld) finalOps(keySpace []int) []int {
	got := scanInts(w.sl)
	present := map[int]bool{}
	for _, k := range got {
		present[k] = true
	}
	ts := w.s.Clock + 10
	for _, k := range keySpace {
		w.ops = append(w.ops, lin.Op{Th: 98, Kind: lin.Final, Key: fmt.Sprint(k), Ok: present[k], Call: ts, Ret: ts + 1})
		ts += 2
	}
	return got
}

func fmtSLScripts(scripts [][]slOp) string {
	s := ""
	for i, sc := range scripts {
		s += fmt.Sprintf(" T%d%v", i, sc)
	}
	return s
}

// walkCheck runs the C14 predicate (structure + statistics) at a quiescent point.
func (w *slWorld) walkCheck(sigPrefix string) *walk.Result {
	debug.SetPanicOnFault(true)
	defer func() {
		if r := recover(); r != nil {
			type addrer interface{ Addr() uintptr }
			if a, ok := r.(addrer); ok && w.arena != nil {
				w.f.failf("freed-but-linked", "the structural walk at quiescence read freed memory: a node still reachable from head has been returned to the allocator: %s", w.arena.Describe(a.Addr()))
			}
			panic(r)
		}
	}()
	res, err := walk.Walk(w.sl, skiplist.CompareInt)
	if err != nil {
		w.f.failf(sigPrefix+"structure", "%v", err)
	}
	if err := res.CompareStats(w.sl.Stats.VerifRaw()); err != nil {
		w.f.failf(sigPrefix+"stats", "%v", err)
	}
	raw := w.sl.Stats.VerifRaw()
	if w.mm {
		// allocations minus frees == nodes live in the allocator (sentinels are not counted as allocations)
		liveNodes := int64(w.arena.LiveCount()-2) / 2 // every node has its item next to it
		if raw.NodeAllocs-raw.NodeFrees != liveNodes {
			w.f.failf(sigPrefix+"stats", "statistics allocs-frees = %d-%d, the allocator holds %d live nodes", raw.NodeAllocs, raw.NodeFrees, liveNodes)
		}
	}
	return res
}

func sortedKeys(m map[int]bool) []int {
	var out []int
	for k, v := range m {
		if v {
			out = append(out, k)
		}
	}
	sort.Ints(out)
	return out
}

// describeFault maps a fault address inside the arena to the block it belongs to.
func (w *slWorld) describeFault(fail *sched.Failure) string {
	type addrer interface{ Addr() uintptr }
	if a, ok := fail.Value.(addrer); ok && w.arena != nil {
		return "fault address " + w.arena.Describe(a.Addr()) + "\n"
	}
	return ""
}

func (w *slWorld) failSig(fail *sched.Failure) string {
	type addrer interface{ Addr() uintptr }
	if a, ok := fail.Value.(addrer); ok && w.arena != nil {
		lo, hi := w.arena.Range()
		if a.Addr() >= lo && a.Addr() < hi {
			return "use-after-free"
		}
	}
	return "skiplist-" + fail.Kind
}
