module verif

go 1.23

require (
	github.com/anishathalye/porcupine v1.3.0
	github.com/couchbase/nitro v0.0.0
	pgregory.net/rapid v1.3.0
)

replace github.com/couchbase/nitro => /repo
