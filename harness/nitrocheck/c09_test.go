package nitrocheck

import (
	"fmt"
	"os"
	"sort"
	"testing"

	"github.com/couchbase/nitro"
	"pgregory.net/rapid"

	"verif/lib/ev"
	"verif/lib/sched"
)

// invisibleVersions reports whether key has a physical version the snapshot cannot see.
func (w *World) invisibleVersions(s *snapRec, key string) bool {
	for _, v := range w.phys {
		if v.key == key && (v.born > s.sn || (v.dead != 0 && v.dead <= s.sn)) {
			return true
		}
	}
	return false
}

func (w *World) probeFor(key []byte) []byte {
	if w.cfg.KV {
		return nitro.KVToBytes(key, []byte("seek"))
	}
	return key
}

// bulkPut inserts a run of numbered keys so that snapshots get tens to hundreds of items.
func (w *World) bulkPut(t *rapid.T) {
	n := rapid.IntRange(5, 120).Draw(t, "bulkn")
	off := rapid.IntRange(0, 150).Draw(t, "bulkoff")
	stride := rapid.IntRange(1, 3).Draw(t, "bulkstride")
	wi := w.drawWriter(t)
	w.quiet = true
	ok := 0
	for i := 0; i < n; i++ {
		k := []byte(fmt.Sprintf("n%03d", off+i*stride))
		if w.cfg.KV {
			k = nitro.KVToBytes(k, []byte(fmt.Sprintf("b%d", w.opn)))
		}
		if w.Put(wi, k) {
			ok++
		}
	}
	w.quiet = false
	w.logf("bulkput(w%d,n=%d,off=%d,stride=%d)=%d", wi, n, off, stride, ok)
}

func (w *World) bulkDelete(t *rapid.T) {
	keys := w.sortedKeys()
	if len(keys) == 0 {
		t.Skip("nothing live")
	}
	from := rapid.IntRange(0, len(keys)-1).Draw(t, "bdfrom")
	n := rapid.IntRange(1, 40).Draw(t, "bdn")
	stride := rapid.IntRange(1, 3).Draw(t, "bdstride")
	wi := w.drawWriter(t)
	w.quiet = true
	for i := 0; i < n && from+i*stride < len(keys); i++ {
		w.Delete(wi, w.probeFor([]byte(keys[from+i*stride])))
	}
	w.quiet = false
	w.logf("bulkdelete(w%d,from=%d,n=%d,stride=%d)", wi, from, n, stride)
}

// C09: iterator positioning is exact and independent of refresh.
//
// The iterator program (SeekFirst/Seek/Next/Refresh/SetRefreshRate/re-Seek) is
// interleaved with further mutations, snapshot churn and collection; the oracle
// is an index into the snapshot's frozen sorted content.
func TestC09(t *testing.T) {
	st := ev.Get("C09", "TestC09")
	rapid.Check(t, func(t *rapid.T) {
		sched.SeedRand(t)
		cfg := genCfg(t, -1, false)
		w := NewWorld(t, cfg, st)
		defer w.Teardown()
		// a third of the cases run on an instance restored from a backup (its items carry version 0)
		if rapid.IntRange(0, 2).Draw(t, "restored") == 0 {
			w.bulkPut(t)
			w.NewSnapshot()
			dir := ScratchDir()
			defer os.RemoveAll(dir)
			if err := w.Store(0, dir, 2, 0, nil); err != nil {
				t.Fatalf("setup: StoreToDisk: %v", err)
			}
			w2, err := LoadWorld(t, cfg, dir, 2, rapid.Bool().Draw(t, "writersbefore"), st, w)
			defer w2.Teardown()
			if err != nil {
				w2.Failf("load-error-after-successful-store", "LoadFromDisk: %v", err)
			}
			w.Shutdown()
			w = w2
			w.flag("restored-instance")
		}
		var (
			it         *nitro.Iterator
			itSnap     *snapRec
			itSnapIdx  int
			idx        = -1 // -1: not positioned yet
			nontrivial bool
			refreshes  int
			steps      int
		)
		closeIt := func() {
			if it != nil {
				it.Close()
				w.snaps[itSnapIdx].refs--
				w.pinned[itSnapIdx]--
				if w.snaps[itSnapIdx].refs == 0 {
					// the iterator held the last reference
					before := w.gcFrontier()
					w.retired[itSnap.sn] = true
					w.noteFrontierAdvance(before)
					w.settle()
				}
				w.iters = nil
				it = nil
				idx = -1
			}
		}
		noteRefresh := func(kind string) {
			refreshes++
			if idx >= 0 && idx < len(itSnap.content) {
				if w.invisibleVersions(itSnap, w.cfg.keyOf([]byte(itSnap.content[idx]))) {
					nontrivial = true
					st.Class("refresh-on-key-with-invisible-version", 1)
				}
			}
		}
		acts := w.seqActions()
		acts["put2"] = acts["put"]
		acts["delete_b"] = acts["delete"]
		acts["snapshot_b"] = acts["snapshot"]
		acts["bulkput"] = w.bulkPut
		acts["bulkdelete"] = w.bulkDelete
		acts["iter_new"] = func(t *rapid.T) {
			i := w.drawOpenSnap(t)
			nit := w.snaps[i].snap.NewIterator()
			if nit == nil {
				w.Failf("iterator-nil", "NewIterator on open snapshot s%d returned nil", i)
			}
			w.snaps[i].refs++
			if w.pinned == nil {
				w.pinned = map[int]int{}
			}
			w.pinned[i]++
			closeIt()
			it = nit
			w.iters = []*nitro.Iterator{it}
			itSnap, itSnapIdx = w.snaps[i], i
			rate := []int{0, 0, 1, 2, 5}[rapid.IntRange(0, 4).Draw(t, "rate")]
			if rate > 0 {
				it.SetRefreshRate(rate)
			}
			w.logf("iter_new(s%d,rate=%d)", i, rate)
		}
		seek := func(t *rapid.T) {
			if it == nil {
				t.Skip("no iterator")
			}
			var k []byte
			c := itSnap.content
			switch cl := rapid.IntRange(0, 9).Draw(t, "seekclass"); {
			case cl < 4 && len(c) > 0: // a key of the snapshot
				k = []byte(w.cfg.keyOf([]byte(c[rapid.IntRange(0, len(c)-1).Draw(t, "seekidx")])))
			case cl < 6 && len(c) > 0: // just after a key of the snapshot (absent, between two)
				k = append([]byte(w.cfg.keyOf([]byte(c[rapid.IntRange(0, len(c)-1).Draw(t, "seekidx")]))), 0)
			case cl == 6:
				k = []byte{} // below the minimum
			case cl == 7:
				k = []byte{0xff, 0xff, 0xff, 0xff} // above the maximum
			default:
				k = genKey(t, true)
			}
			it.Seek(w.probeFor(k))
			idx = sort.Search(len(c), func(i int) bool { return w.cfg.keyOf([]byte(c[i])) >= string(k) })
			w.logf("iter_seek(%q)->%d", k, idx)
			// absent key between two keys with invisible versions
			if idx > 0 && idx < len(c) && w.cfg.keyOf([]byte(c[idx])) != string(k) &&
				w.invisibleVersions(itSnap, w.cfg.keyOf([]byte(c[idx]))) && w.invisibleVersions(itSnap, w.cfg.keyOf([]byte(c[idx-1]))) {
				nontrivial = true
				st.Class("seek-absent-between-invisible", 1)
			}
		}
		acts["iter_seek"] = seek
		acts["iter_seek_b"] = seek
		acts["iter_seek_c"] = seek
		acts["iter_seekfirst"] = func(t *rapid.T) {
			if it == nil {
				t.Skip("no iterator")
			}
			it.SeekFirst()
			idx = 0
			w.logf("iter_seekfirst()")
		}
		next := func(t *rapid.T) {
			if it == nil || idx < 0 || idx >= len(itSnap.content) {
				t.Skip("not positioned on an item")
			}
			n := rapid.IntRange(1, 4).Draw(t, "nexts")
			for i := 0; i < n && idx < len(itSnap.content); i++ {
				noteRefresh("auto")
				it.Next()
				idx++
				steps++
				w.checkIter(it, itSnap, idx)
			}
			w.logf("iter_next(x%d)->%d", n, idx)
		}
		for _, sfx := range []string{"", "_b", "_c", "_d", "_e", "_f", "_g", "_h"} {
			acts["iter_next"+sfx] = next
		}
		acts["iter_new_b"] = acts["iter_new"]
		acts["iter_refresh_b"] = func(t *rapid.T) {
			if it == nil || idx < 0 {
				t.Skip("not positioned")
			}
			noteRefresh("explicit")
			it.Refresh()
			w.logf("iter_refresh()")
		}
		acts["iter_refresh"] = func(t *rapid.T) {
			if it == nil || idx < 0 {
				t.Skip("not positioned")
			}
			noteRefresh("explicit")
			it.Refresh()
			w.logf("iter_refresh()")
		}
		acts["iter_setrate"] = func(t *rapid.T) {
			if it == nil {
				t.Skip("no iterator")
			}
			r := rapid.IntRange(0, 5).Draw(t, "rate")
			it.SetRefreshRate(r)
			w.logf("iter_setrate(%d)", r)
		}
		// the world's close action must not close the iterator's own reference: it is separate (NewIterator opened it)
		acts[""] = func(t *rapid.T) {
			if it != nil && idx >= 0 {
				w.checkIter(it, itSnap, idx)
			}
		}
		t.Repeat(acts)
		closeIt()
		rep := w.Shutdown()
		if cfg.MM && !rep.Clean() {
			w.Failf("alloc-report", "allocator report after Close: %v", rep)
		}
		if w.flags["restored-instance"] {
			st.Class("restored-instance", 1)
		}
		st.Case(w.Desc(), nontrivial)
		st.AddExtra("iterator-steps", int64(steps))
		st.AddExtra("refresh-opportunities", int64(refreshes))
	})
}

func (w *World) checkIter(it *nitro.Iterator, s *snapRec, idx int) {
	valid := it.Valid()
	if valid != (idx < len(s.content)) {
		w.Failf("iterator-valid", "iterator on snapshot sn=%d: Valid()=%v at model position %d of %d", s.sn, valid, idx, len(s.content))
	}
	if valid {
		if got := string(it.Get()); got != s.content[idx] {
			w.Failf("iterator-position", "iterator on snapshot sn=%d at model position %d: Get()=%q, expected %q\ncontent %q", s.sn, idx, got, s.content[idx], s.content)
		}
	}
}
