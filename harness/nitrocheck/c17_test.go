package nitrocheck

import (
	"testing"

	"github.com/couchbase/nitro"
	"pgregory.net/rapid"

	"verif/lib/ev"
	"verif/lib/guard"
	"verif/lib/sched"
)

// C17 at the nitro level: "a database that goes idle (or is closed) holds no
// unlinked-but-unfreed nodes". Sequential histories with user-managed memory, iterator churn
// (refresh rates, explicit Refresh, iterators opened and closed around deletes and collection,
// NewIterator on snapshots that were already fully released), same-epoch and cross-epoch deletes.
// Oracle after every step with no iterator open: collection settled and the allocator's live set
// is exactly node+item per physical version plus the sentinels; allocator empty after Close.
func TestC17Nitro(t *testing.T) {
	st := ev.Get("C17", "TestC17Nitro")
	rapid.Check(t, func(t *rapid.T) {
		sched.SeedRand(t)
		cfg := genCfg(t, 1, false)
		cfg.GuardMode = guard.Quarantine
		w := NewWorld(t, cfg, st)
		w.Strict = true
		defer w.Teardown()
		var its []*nitro.Iterator
		var itSnap []int
		deadOpens, refreshes, idleChecks := 0, 0, 0
		acts := w.seqActions()
		acts["put2"] = acts["put"]
		acts["delete_b"] = acts["delete"]
		acts["snapshot_b"] = acts["snapshot"]
		acts["close_b"] = acts["close"]
		acts["bulkput"] = w.bulkPut
		acts["bulkdelete"] = w.bulkDelete
		acts["iter_open"] = func(t *rapid.T) {
			if len(its) >= 3 {
				t.Skip("enough iterators")
			}
			i := w.drawOpenSnap(t)
			it := w.snaps[i].snap.NewIterator()
			if it == nil {
				w.Failf("iterator-nil", "NewIterator on open snapshot s%d returned nil", i)
			}
			w.snaps[i].refs++
			if w.pinned == nil {
				w.pinned = map[int]int{}
			}
			w.pinned[i]++
			if r := rapid.IntRange(0, 3).Draw(t, "rate"); r > 0 {
				it.SetRefreshRate(r)
			}
			it.SeekFirst()
			its = append(its, it)
			itSnap = append(itSnap, i)
			w.iters = append(w.iters, it)
			w.logf("iter_open(s%d)", i)
		}
		acts["iter_step"] = func(t *rapid.T) {
			if len(its) == 0 {
				t.Skip("no iterator")
			}
			k := rapid.IntRange(0, len(its)-1).Draw(t, "which")
			n := rapid.IntRange(1, 5).Draw(t, "steps")
			for j := 0; j < n && its[k].Valid(); j++ {
				its[k].Next()
			}
			if rapid.Bool().Draw(t, "refresh") {
				its[k].Refresh()
				refreshes++
			}
			w.logf("iter_step(%d,x%d)", k, n)
		}
		closeIter := func(k int) {
			its[k].Close()
			i := itSnap[k]
			w.pinned[i]--
			w.snaps[i].refs--
			if w.snaps[i].refs == 0 {
				before := w.gcFrontier()
				w.retired[w.snaps[i].sn] = true
				w.noteFrontierAdvance(before)
			}
			its = append(its[:k], its[k+1:]...)
			itSnap = append(itSnap[:k], itSnap[k+1:]...)
			w.iters = append([]*nitro.Iterator(nil), its...)
			w.logf("iter_close(%d)", k)
		}
		acts["iter_close"] = func(t *rapid.T) {
			if len(its) == 0 {
				t.Skip("no iterator")
			}
			closeIter(rapid.IntRange(0, len(its)-1).Draw(t, "which"))
		}
		acts["dead_open"] = func(t *rapid.T) {
			// Open / NewIterator on a snapshot whose last reference is gone must fail and leave nothing behind
			var dead []int
			for i, s := range w.snaps {
				if s.refs == 0 {
					dead = append(dead, i)
				}
			}
			if len(dead) == 0 {
				t.Skip("no released snapshot")
			}
			i := dead[rapid.IntRange(0, len(dead)-1).Draw(t, "dead")]
			if w.snaps[i].snap.Open() {
				w.Failf("open-after-release", "Open succeeded on the fully released snapshot s%d", i)
			}
			if it := w.snaps[i].snap.NewIterator(); it != nil {
				w.Failf("open-after-release", "NewIterator returned an iterator on the fully released snapshot s%d", i)
			}
			deadOpens++
			w.logf("dead_open(s%d)", i)
		}
		acts[""] = func(t *rapid.T) {
			if len(its) == 0 {
				w.IdleCheck()
				idleChecks++
			}
		}
		t.Repeat(acts)
		for len(its) > 0 {
			closeIter(0)
		}
		w.IdleCheck()
		rep := w.Shutdown()
		if !rep.Clean() {
			w.Failf("alloc-leak", "allocator report after Close: %v", rep)
		}
		st.Case(w.Desc(), (deadOpens > 0 || refreshes > 0) && (w.flags["same-epoch-delete"] || w.flags["collected-cross-epoch-version"]))
		st.AddExtra("idle-checks", int64(idleChecks))
	})
}
