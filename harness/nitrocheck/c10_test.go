package nitrocheck

import (
	"errors"
	"fmt"
	"testing"
	"time"

	"pgregory.net/rapid"

	"verif/lib/ev"
	"verif/lib/sched"
)

// runVisitor runs Visitor under a watchdog; timedOut means it did not return.
func (w *World) runVisitor(i, shards, conc int, inject func(shard, idx int) error) (parts map[int][]string, err error, timedOut bool) {
	type res struct {
		parts map[int][]string
		err   error
		pnc   any
	}
	ch := make(chan res, 1)
	go func() {
		var r res
		defer func() {
			if p := recover(); p != nil {
				r.pnc = p
			}
			ch <- r
		}()
		r.parts, r.err = VisitShards(w.db, w.snaps[i].snap, shards, conc, inject)
	}()
	lim := 20 * time.Second
	if processFailed {
		lim = 2 * time.Second
	}
	select {
	case r := <-ch:
		if r.pnc != nil {
			w.Failf("visitor-panic", "Visitor(s%d, shards=%d, conc=%d) panicked: %v", i, shards, conc, r.pnc)
		}
		return r.parts, r.err, false
	case <-time.After(lim):
		return nil, nil, true
	}
}

// C10: Visitor delivers every visible item exactly once, partitioned in order.
func TestC10(t *testing.T) {
	st := ev.Get("C10", "TestC10")
	rapid.Check(t, func(t *rapid.T) {
		sched.SeedRand(t)
		cfg := genCfg(t, -1, false)
		w := NewWorld(t, cfg, st)
		defer w.Teardown()
		nontrivial := false
		visits := 0
		acts := w.seqActions()
		acts["put2"] = acts["put"]
		acts["snapshot_b"] = acts["snapshot"]
		acts["bulkput"] = w.bulkPut
		acts["bulkput_b"] = w.bulkPut
		acts["bulkdelete"] = w.bulkDelete
		visit := func(t *rapid.T) {
			i := w.drawOpenSnap(t)
			s := w.snaps[i]
			var shards int
			switch rapid.IntRange(0, 3).Draw(t, "shardclass") {
			case 0:
				shards = rapid.IntRange(1, 4).Draw(t, "shards")
			case 1:
				shards = rapid.IntRange(len(s.content)+1, len(s.content)+10).Draw(t, "shards")
			default:
				shards = rapid.IntRange(1, 40).Draw(t, "shards")
			}
			conc := rapid.IntRange(1, 8).Draw(t, "conc")
			errShard, errIdx := -1, -1
			if rapid.IntRange(0, 3).Draw(t, "inject") == 0 {
				errShard = rapid.IntRange(0, shards-1).Draw(t, "errshard")
				errIdx = rapid.IntRange(0, 3).Draw(t, "erridx")
			}
			injected := errors.New("injected callback error")
			fired := false
			var inject func(shard, idx int) error
			if errShard >= 0 {
				inject = func(shard, idx int) error {
					if shard == errShard && idx == errIdx {
						fired = true
						return injected
					}
					return nil
				}
			}
			w.logf("visit(s%d,shards=%d,conc=%d,err@%d/%d)", i, shards, conc, errShard, errIdx)
			parts, err, timedOut := w.runVisitor(i, shards, conc, inject)
			visits++
			if timedOut {
				w.Failf("visitor-hang", "Visitor(s%d, shards=%d, conc=%d) did not return within the watchdog", i, shards, conc)
			}
			if fired {
				if err == nil {
					w.Failf("visitor-error-lost", "a callback returned an error in shard %d but Visitor returned nil", errShard)
				}
				if err != injected {
					w.Failf("visitor-error-other", "Visitor returned %v, the callback returned %v", err, injected)
				}
				if errShard > 0 {
					nontrivial = true
					st.Class("error-in-non-first-shard", 1)
				}
				return
			}
			if err != nil {
				w.Failf("visitor-spurious-error", "Visitor returned %v although no callback failed", err)
			}
			for id := range parts {
				if id < 0 || id >= shards {
					w.Failf("visitor-shard-id", "Visitor(s%d, shards=%d) called the callback with shard id %d", i, shards, id)
				}
			}
			got := ConcatShards(parts)
			if !equalSeq(got, s.content) {
				w.Failf("visitor-content", "Visitor(s%d sn=%d, shards=%d, conc=%d): concatenation of the shards differs from the snapshot content\n%s\nshards: %v",
					i, s.sn, shards, conc, diffSeq(got, s.content), fmtParts(parts))
			}
			nonEmpty := 0
			for _, p := range parts {
				if len(p) > 0 {
					nonEmpty++
				}
			}
			inv := false
			for _, c := range s.content {
				if w.invisibleVersions(s, w.cfg.keyOf([]byte(c))) {
					inv = true
					break
				}
			}
			if !inv {
				// invisible versions of keys outside the snapshot also become pivots
				for _, v := range w.phys {
					if v.born > s.sn || (v.dead != 0 && v.dead <= s.sn) {
						inv = true
						break
					}
				}
			}
			if nonEmpty >= 2 && inv {
				nontrivial = true
				st.Class("multi-shard-with-invisible-versions", 1)
			}
			if shards > len(s.content) {
				nontrivial = true
				st.Class("shards-exceed-items", 1)
			}
			if nonEmpty >= 2 {
				st.Class("multi-shard", 1)
			}
		}
		acts["visit"] = visit
		acts["visit_b"] = visit
		acts["visit_c"] = visit
		acts[""] = func(t *rapid.T) {}
		t.Repeat(acts)
		if len(w.OpenSnaps()) == 0 {
			w.NewSnapshot()
		}
		visit(t)
		rep := w.Shutdown()
		if cfg.MM && !rep.Clean() {
			w.Failf("alloc-report", "allocator report after Close: %v", rep)
		}
		st.Case(w.Desc(), nontrivial)
		st.AddExtra("visits", int64(visits))
	})
}

func fmtParts(parts map[int][]string) string {
	s := ""
	for id := 0; id < 64; id++ {
		if p, ok := parts[id]; ok {
			s += fmt.Sprintf(" [%d]%q", id, p)
		}
	}
	return s
}
