package nitrocheck

import (
	"fmt"
	"testing"
	"time"

	"github.com/couchbase/nitro"

	"pgregory.net/rapid"

	"verif/lib/ev"
	"verif/lib/sched"
)

// memoryOracle checks (strict worlds) that the store memory equals what the
// physically expected versions account for, and that an idle empty instance is
// back at the fresh-instance value.
func (w *World) memoryOracle() {
	var want int64
	for _, v := range w.phys {
		want += int64(v.node.Size()) + 12 + int64(len(v.bytes))
	}
	// DumpStats adds up the global and the workers' local counters without synchronisation; a worker
	// that is just merging its local counters makes one reading count a node twice. Only a
	// persistent difference is an accounting error.
	d := w.Stats()
	for try := 0; try < 3000 && d.MemoryUsed != want; try++ {
		time.Sleep(time.Millisecond)
		d = w.Stats()
	}
	if d.MemoryUsed != want {
		w.Failf("gc-memory", "memory_used=%d at collection quiescence, the %d physically expected versions account for %d", d.MemoryUsed, len(w.phys), want)
	}
	if len(w.phys) == 0 && len(w.OpenSnaps()) == 0 {
		if _, running, _, _ := w.db.VerifGCState(); !running {
			if got := w.db.MemoryInUse(); got != w.baseMem {
				w.Failf("gc-memory-baseline", "MemoryInUse()=%d with nothing live and nothing open, a fresh instance reports %d", got, w.baseMem)
			}
		}
	}
}

// C06 (sequential histories): garbage collection is precise and complete.
func TestC06(t *testing.T) {
	st := ev.Get("C06", "TestC06")
	rapid.Check(t, func(t *rapid.T) {
		sched.SeedRand(t)
		cfg := genCfg(t, -1, false)
		w := NewWorld(t, cfg, st)
		w.Strict = true
		w.memCheck = w.memoryOracle
		defer w.Teardown()
		acts := w.seqActions()
		acts["put2"] = acts["put"]
		acts["put3"] = acts["put"]
		acts["delete_b"] = acts["delete"]
		acts["delete_c"] = acts["delete"]
		acts["snapshot_b"] = acts["snapshot"]
		acts["close_b"] = acts["close"]
		acts["close_c"] = acts["close"]
		acts["bulkput"] = w.bulkPut
		acts["bulkdelete"] = w.bulkDelete
		storms := 0
		acts["storm"] = func(t *rapid.T) {
			// many short-lived snapshots, each owning a little garbage, created and closed behind an older open
			// snapshot: when that one is closed the collector has hundreds of lists to hand over in one pass
			if storms >= 1 || len(w.OpenSnaps()) == 0 || len(w.OpenSnaps()) >= 8 {
				t.Skip("no storm")
			}
			storms++
			n := rapid.IntRange(150, 420).Draw(t, "stormlen")
			wi := w.drawWriter(t)
			w.quiet = true
			for j := 0; j < n; j++ {
				k := []byte(fmt.Sprintf("s%03d", j%7))
				if w.cfg.KV {
					k = nitro.KVToBytes(k, []byte("x"))
				}
				if w.live[w.cfg.keyOf(k)] != nil {
					w.Delete(wi, k)
				} else {
					w.Put(wi, k)
				}
				w.NewSnapshot()
				w.Close(len(w.snaps) - 1)
			}
			w.quiet = false
			w.logf("storm(%d snapshots)", n)
			if n > 256 {
				w.flag("storm-over-256")
			}
		}
		acts[""] = func(t *rapid.T) {
			// precise: open snapshots intact; complete: statistics equal the model (settle ran inside the actions)
			for _, i := range w.OpenSnaps() {
				w.CheckSnap(i, 0, "gc-premature-snapshot-damaged")
			}
		}
		t.Repeat(acts)
		w.AwaitCollection()
		w.memoryOracle()
		// retire everything in a drawn order, then everything dead must be gone
		for len(w.ClosableSnaps()) > 0 {
			c := w.ClosableSnaps()
			w.Close(c[rapid.IntRange(0, len(c)-1).Draw(t, "finalclose")])
			w.memoryOracle()
		}
		w.GC()
		w.memoryOracle()
		// delete everything that is left, seal, retire: the instance must be back at its baseline
		for _, k := range w.sortedKeys() {
			w.Delete(0, w.probeFor([]byte(k)))
		}
		w.NewSnapshot()
		w.Close(len(w.snaps) - 1)
		w.GC()
		w.memoryOracle()
		nontrivial := w.flags["collected-while-newer-snapshot-open"] || w.flags["non-fifo-close"]
		var classes []string
		for f := range w.flags {
			classes = append(classes, f)
		}
		rep := w.Shutdown()
		if cfg.MM && !rep.Clean() {
			w.Failf("alloc-report", "allocator report after Close: %v", rep)
		}
		st.Case(w.Desc(), nontrivial, classes...)
	})
}
