package nitrocheck

import (
	"fmt"
	"os"
	"os/signal"
	"path/filepath"
	"sort"
	"sync"
	"syscall"
	"testing"

	"github.com/couchbase/nitro"
	"pgregory.net/rapid"

	"verif/lib/ev"
	"verif/lib/sched"
)

var fsizeOnce sync.Once

// withFileSizeLimit runs f with RLIMIT_FSIZE set to limit bytes (writes that would grow
// any file beyond it fail with EFBIG; SIGXFSZ is ignored), then restores the limit.
func withFileSizeLimit(limit uint64, f func()) {
	fsizeOnce.Do(func() { signal.Ignore(syscall.SIGXFSZ) })
	var old syscall.Rlimit
	syscall.Getrlimit(syscall.RLIMIT_FSIZE, &old)
	syscall.Setrlimit(syscall.RLIMIT_FSIZE, &syscall.Rlimit{Cur: limit, Max: old.Max})
	defer syscall.Setrlimit(syscall.RLIMIT_FSIZE, &old)
	f()
}

func dirSizes(dir string) (max int64, total int64, n int) {
	filepath.Walk(dir, func(p string, info os.FileInfo, err error) error {
		if err == nil && !info.IsDir() {
			n++
			total += info.Size()
			if info.Size() > max {
				max = info.Size()
			}
		}
		return nil
	})
	return
}

func copyDir(src, dst string) {
	filepath.Walk(src, func(p string, info os.FileInfo, err error) error {
		if err != nil {
			return nil
		}
		rel, _ := filepath.Rel(src, p)
		if info.IsDir() {
			os.MkdirAll(filepath.Join(dst, rel), 0755)
			return nil
		}
		data, _ := os.ReadFile(p)
		os.WriteFile(filepath.Join(dst, rel), data, 0644)
		return nil
	})
}

func dirDigest(dir string) string {
	var parts []string
	filepath.Walk(dir, func(p string, info os.FileInfo, err error) error {
		if err == nil && !info.IsDir() {
			rel, _ := filepath.Rel(dir, p)
			data, _ := os.ReadFile(p)
			parts = append(parts, fmt.Sprintf("%s:%d:%x", rel, len(data), ev.Hash(string(data))))
		}
		return nil
	})
	sort.Strings(parts)
	return fmt.Sprint(parts)
}

// buildC12World creates a database with a snapshot to back up.
func buildC12World(t *rapid.T, st *ev.Stats) (*World, int, string) {
	cfg := Cfg{MM: false, KV: rapid.Bool().Draw(t, "kv"), Delta: rapid.Bool().Draw(t, "delta"), NWriters: rapid.IntRange(1, 2).Draw(t, "writers")}
	w := NewWorld(t, cfg, st)
	size := []int{0, 1, 5, 20, 60}[rapid.IntRange(0, 4).Draw(t, "size")]
	w.quiet = true
	for i := 0; i < size; i++ {
		k := []byte(fmt.Sprintf("%x", uint32(i+1)*2654435761+uint32(rapid.IntRange(0, 1<<20).Draw(t, "salt"))))
		k = k[:rapid.IntRange(1, len(k)).Draw(t, "klen")]
		if rapid.IntRange(0, 9).Draw(t, "big") == 0 {
			k = append(k, make([]byte, rapid.IntRange(50, 400).Draw(t, "pad"))...)
		}
		if cfg.KV {
			k = nitro.KVToBytes(k, []byte(fmt.Sprintf("v%d", i%7)))
		}
		w.Put(i%cfg.NWriters, k)
	}
	w.quiet = false
	w.NewSnapshot()
	bs := []int{512 * 1024, 64, 16}[rapid.IntRange(0, 2).Draw(t, "blocksize")]
	nitro.DiskBlockSize = bs
	return w, len(w.snaps) - 1, fmt.Sprintf("db{kv=%v delta=%v items=%d blocksize=%d}", cfg.KV, cfg.Delta, len(w.snaps[len(w.snaps)-1].content), bs)
}

// loadExact loads dir into a fresh instance: returns "error", "exact" or a bad class.
func loadClass(cfg Cfg, dir string, content []string) loadOutcome {
	b := &backupBase{cfg: cfg, dir: dir, content: content}
	return b.loadOnce(2)
}

// C12 (a): a failing write/flush/close makes StoreToDisk return an error, or the
// backup it reports as successful restores exactly.
func TestC12Limit(t *testing.T) {
	st := ev.Get("C12", "TestC12Limit")
	known := Known()
	rapid.Check(t, func(t *rapid.T) {
		sched.SeedRand(t)
		w, si, desc := buildC12World(t, st)
		defer func() { nitro.DiskBlockSize = 512 * 1024 }()
		defer w.Teardown()
		s := w.snaps[si]
		conc := rapid.IntRange(1, 4).Draw(t, "storeconc")
		// reference run without a limit to learn the file sizes
		ref := ScratchDir()
		defer os.RemoveAll(ref)
		if err := w.Store(si, ref, conc, 0, nil); err != nil {
			t.Fatalf("setup: unlimited StoreToDisk failed: %v", err)
		}
		maxSize, _, _ := dirSizes(ref)
		limits := []uint64{}
		if maxSize <= 700 {
			for l := uint64(0); l <= uint64(maxSize)+1; l++ {
				limits = append(limits, l)
			}
			st.SetExhaustive(true)
		} else {
			seen := map[uint64]bool{}
			for i := 0; i < 300; i++ {
				l := uint64(rapid.IntRange(0, int(maxSize)+1).Draw(t, "limit"))
				if !seen[l] {
					seen[l] = true
					limits = append(limits, l)
				}
			}
		}
		bad := map[string]string{}
		for _, l := range limits {
			dir := ScratchDir()
			var err error
			withFileSizeLimit(l, func() { err = w.Store(si, dir, conc, 0, nil) })
			failedWrite := int64(l) < maxSize
			if err == nil {
				o := loadClass(w.cfg, dir, s.content)
				if o.class != "exact" {
					sig := "store-success-load-" + o.class
					if known[sig] {
						st.KnownFinding(sig)
					} else if _, ok := bad[sig]; !ok {
						detail := ""
						if o.err != nil {
							detail = o.err.Error()
						}
						bad[sig] = fmt.Sprintf("file size limit %d bytes (largest file of the full backup: %d): StoreToDisk returned nil, LoadFromDisk: %s %s (%d items instead of %d)", l, maxSize, o.class, detail, len(o.got), len(s.content))
					}
				}
			}
			cls := "store-ok"
			if err != nil {
				cls = "store-error"
			}
			st.Case(fmt.Sprintf("%s conc=%d limit=%d", desc, conc, l), failedWrite, cls)
			os.RemoveAll(dir)
		}
		if len(bad) > 0 {
			var sigs []string
			for k := range bad {
				sigs = append(sigs, k)
			}
			sort.Strings(sigs)
			msg := ""
			for _, k := range sigs {
				msg += "\n  " + k + ": " + bad[k]
			}
			processFailed = true
			st.Fail(sigs[0], fmt.Sprintf("%s conc=%d:%s", desc, conc, msg))
			t.Fatalf("FAIL[%s] %s conc=%d:%s", sigs[0], desc, conc, msg)
		}
	})
}

// C12 (b): if the process dies at any point during StoreToDisk into an empty
// directory, LoadFromDisk of what is left returns an error or exactly the snapshot.
func TestC12Crash(t *testing.T) {
	st := ev.Get("C12", "TestC12Crash")
	known := Known()
	rapid.Check(t, func(t *rapid.T) {
		sched.SeedRand(t)
		w, si, desc := buildC12World(t, st)
		defer func() { nitro.DiskBlockSize = 512 * 1024 }()
		defer w.Teardown()
		s := w.snaps[si]
		dir := ScratchDir()
		defer os.RemoveAll(dir)
		imgRoot := ScratchDir()
		defer os.RemoveAll(imgRoot)
		var mu sync.Mutex
		type image struct {
			path  string
			point int
			arg   uint64
		}
		var images []image
		nitro.VerifSetHook(func(point int, arg uint64) {
			if point < 120 || point > 132 {
				return
			}
			mu.Lock()
			defer mu.Unlock()
			p := filepath.Join(imgRoot, fmt.Sprintf("img%04d", len(images)))
			copyDir(dir, p)
			images = append(images, image{p, point, arg})
		})
		// delta mode: mutate (deletes + collection) from the item callback so that delta files have content
		mutateAt := 0
		var script []SOp
		if w.cfg.Delta && len(s.content) > 1 {
			mutateAt = 1
			script = []SOp{{Kind: 5, W: 0, Sel: rapid.IntRange(0, 1000).Draw(t, "sel")}}
		}
		content := append([]string(nil), s.content...)
		err := w.Store(si, dir, 1, mutateAt, script)
		nitro.VerifSetHook(nil)
		if err != nil {
			t.Fatalf("setup: StoreToDisk failed: %v", err)
		}
		// the final state is an image too
		final := filepath.Join(imgRoot, "final")
		copyDir(dir, final)
		images = append(images, image{final, 999, 0})
		bad := map[string]string{}
		prev := ""
		evaluate := func(p string, label string, changed bool) {
			o := loadClass(w.cfg, p, content)
			st.Case(desc+" "+label+" "+dirDigest(p), changed, "image-outcome-"+o.class)
			if o.class == "error" || o.class == "exact" || o.class == "INCONCLUSIVE-SLOW" {
				return
			}
			sig := "crash-image-" + o.class
			if known[sig] {
				st.KnownFinding(sig)
				return
			}
			if _, ok := bad[sig]; !ok {
				bad[sig] = fmt.Sprintf("%s: LoadFromDisk of the directory left behind: %s (%d items instead of %d)", label, o.class, len(o.got), len(content))
			}
		}
		for i, im := range images {
			d := dirDigest(im.path)
			label := fmt.Sprintf("image#%d@point%d/%d", i, im.point, im.arg)
			evaluate(im.path, label, d != prev)
			prev = d
			// a manifest that was created but not yet written (process died inside WriteFile)
			if im.point == 122 {
				name := []string{"nitro.json", "data/files.json", "data/checksums.json", "delta/files.json", "delta/checksums.json"}[im.arg]
				full := filepath.Join(im.path, name)
				if data, err := os.ReadFile(full); err == nil && len(data) > 0 {
					os.WriteFile(full, nil, 0644)
					evaluate(im.path, label+"+empty("+name+")", true)
					os.WriteFile(full, data[:len(data)/2], 0644)
					evaluate(im.path, label+"+half("+name+")", true)
					os.WriteFile(full, data, 0644)
				}
			}
		}
		st.AddExtra("images", int64(len(images)))
		if len(bad) > 0 {
			var sigs []string
			for k := range bad {
				sigs = append(sigs, k)
			}
			sort.Strings(sigs)
			msg := ""
			for _, k := range sigs {
				msg += "\n  " + k + ": " + bad[k]
			}
			processFailed = true
			st.Fail(sigs[0], desc+":"+msg)
			t.Fatalf("FAIL[%s] %s:%s", sigs[0], desc, msg)
		}
	})
}
