// Package nitrocheck holds the sequential nitro engine (a model-based state
// machine over the public API) and the checks built on it.
package nitrocheck

import (
	"bytes"
	"encoding/json"
	"fmt"
	"os"
	"runtime/debug"
	"sort"
	"strings"
	"time"

	"github.com/couchbase/nitro"
	"github.com/couchbase/nitro/skiplist"

	"verif/lib/ev"
	"verif/lib/guard"
)

// TB is the part of rapid.T / testing.T the world needs.
type TB interface {
	Fatalf(format string, args ...any)
	Logf(format string, args ...any)
	Skipf(format string, args ...any)
}

type Cfg struct {
	MM        bool
	GuardMode guard.Mode
	KV        bool
	Delta     bool
	NWriters  int
	NodeList  bool // the harness keeps some live nodes in a nitro.NodeList (as index callers do)
}

func (c Cfg) String() string {
	return fmt.Sprintf("cfg{mm=%v kv=%v delta=%v writers=%d nodelist=%v}", c.MM, c.KV, c.Delta, c.NWriters, c.NodeList)
}

// keyOf returns the comparator key of an item.
func (c Cfg) keyOf(item []byte) string {
	if c.KV {
		k, _ := nitro.KVFromBytes(item)
		return string(k)
	}
	return string(item)
}

type version struct {
	key   string
	bytes string
	born  uint32
	dead  uint32
	node  *skiplist.Node
}

type snapRec struct {
	snap    *nitro.Snapshot
	sn      uint32
	content []string // item bytes in comparator order
	refs    int      // references held by the harness
	// classification
	laterDeleted   bool // a key it contains was deleted in a later epoch
	laterReinsert  bool // ... and re-inserted later
	otherClosed    bool // another snapshot was retired after it was created
	collectedSince bool // a collection pass removed >=1 version since it was created
}

type World struct {
	t           TB
	cfg         Cfg
	db          *nitro.Nitro
	ws          []*nitro.Writer
	arena       *guard.Arena
	ownArena    bool
	closedClean bool
	st          *ev.Stats

	currSn  uint32
	live    map[string]*version
	phys    []*version // versions expected to be physically present (live + uncollected dead)
	snaps   []*snapRec // every snapshot created through the world, in creation order
	retired map[uint32]bool
	// snapshots the model knows about but that the world does not hold (created by LoadFromDisk etc.)
	firstSn uint32 // smallest snapshot number not retired implicitly (restored instances start at 1)

	log     []string
	opn     int64
	flags   map[string]bool
	baseMem int64
	closed  bool
	// Strict makes collection progress part of the judged property (C06/C07); otherwise a
	// collection that does not settle makes the case inconclusive (skipped), not failed.
	Strict      bool
	memCheck    func()
	freeRunning bool  // a script runs concurrently with a backup that releases its reference on its own schedule
	inCallback  bool  // running inside a callback of the code under test: failures are deferred
	quiet       bool  // suppress per-op log lines (bulk actions log a summary)
	failed      *bool // shared "a failure was seen in this process" flag
	iters       []*nitro.Iterator
	pinned      map[int]int // references reserved for concurrent readers (not closable by actions)
	// the application-side node list (nitro.NodeList) some callers keep over the nodes of live items
	nl     *nitro.NodeList
	inList map[string]bool
	// known findings (signatures) for which generators exclude the triggering shape
	known map[string]bool
}

var processFailed bool

// ProcessFailed reports whether any failure has been seen in this process
// (used to shorten timed waits during shrinking).
func ProcessFailed() bool { return processFailed }

func newConfig(cfg Cfg, arena *guard.Arena) nitro.Config {
	c := nitro.DefaultConfig()
	if cfg.KV {
		c.SetKeyComparator(nitro.CompareKV)
	}
	if cfg.MM {
		c.UseMemoryMgmt(arena.Malloc, arena.Free)
	}
	if cfg.Delta {
		c.UseDeltaInterleaving()
	}
	return c
}

// NewWorld creates a fresh instance and its model.
func NewWorld(t TB, cfg Cfg, st *ev.Stats) *World {
	debug.SetPanicOnFault(true)
	w := &World{t: t, cfg: cfg, st: st, currSn: 1, live: map[string]*version{}, retired: map[uint32]bool{},
		flags: map[string]bool{}, firstSn: 1, known: Known()}
	if cfg.MM {
		w.arena = guard.Get(cfg.GuardMode)
		w.ownArena = true
	}
	w.db = nitro.NewWithConfig(newConfig(cfg, w.arena))
	for i := 0; i < cfg.NWriters; i++ {
		w.ws = append(w.ws, w.db.NewWriter())
	}
	w.baseMem = w.db.MemoryInUse()
	if cfg.NodeList {
		w.nl = nitro.NewNodeList(nil)
		w.inList = map[string]bool{}
	}
	w.logf("new %v", cfg)
	return w
}

func (w *World) logf(format string, args ...any) {
	if w.quiet {
		return
	}
	w.log = append(w.log, fmt.Sprintf(format, args...))
}

// Desc is the canonical rendering of the history so far.
func (w *World) Desc() string { return strings.Join(w.log, "; ") }

func (w *World) flag(f string) { w.flags[f] = true }

// Failf records the failure signature, freezes evidence counters and fails the case.
func (w *World) Failf(sig string, format string, args ...any) {
	msg := fmt.Sprintf(format, args...)
	processFailed = true
	if w.inCallback {
		panic(&deferredFailure{sig: sig, msg: msg})
	}
	if w.st != nil {
		w.st.Fail(sig, msg+"\nHISTORY: "+w.Desc())
	}
	w.t.Fatalf("FAIL[%s] %s\nHISTORY: %s", sig, msg, w.Desc())
}

func (w *World) op() {
	w.opn++
	if w.arena != nil {
		w.arena.SetOp(w.opn)
	}
}

func q(b []byte) string { return fmt.Sprintf("%q", b) }

// ---- set operations -------------------------------------------------------

func (w *World) Put(wi int, item []byte) bool {
	w.op()
	key := w.cfg.keyOf(item)
	old := w.live[key]
	n := w.ws[wi].Put2(item)
	w.logf("put(w%d,%s)=%v", wi, q(item), n != nil)
	if (n != nil) != (old == nil) {
		w.Failf("put-result", "Put2(%s) returned node=%v but model says key present=%v", q(item), n != nil, old != nil)
	}
	if n == nil {
		if old.bytes != string(item) {
			w.flag("rejected-put-different-bytes")
		}
		w.flag("rejected-put")
		return false
	}
	if got := nitro.VerifItemFromNode(n).Bytes(); !bytes.Equal(got, item) {
		w.Failf("put-node-bytes", "Put2(%s) returned a node holding %s", q(item), q(got))
	}
	v := &version{key: key, bytes: string(item), born: w.currSn, node: n}
	w.live[key] = v
	w.phys = append(w.phys, v)
	if w.nl != nil && len(w.inList) < 12 && w.opn%3 != 0 {
		w.nl.Add(n)
		w.inList[string(item)] = true
	}
	for _, o := range w.phys {
		if o != v && o.key == key && o.dead != 0 {
			w.flag("reinsert-after-delete")
			if o.dead < w.currSn {
				w.flag("reinsert-of-key-deleted-in-earlier-epoch")
			}
			break
		}
	}
	for _, s := range w.snaps {
		if s.refs > 0 && s.laterDeleted && containsKey(w.cfg, s.content, key) {
			s.laterReinsert = true
		}
	}
	return true
}

func containsKey(cfg Cfg, content []string, key string) bool {
	for _, c := range content {
		if cfg.keyOf([]byte(c)) == key {
			return true
		}
	}
	return false
}

// unlist takes the item out of the application's node list before it is deleted.
func (w *World) unlist(v *version) {
	if w.nl != nil && v != nil && w.inList[v.bytes] {
		if n := w.nl.Remove([]byte(v.bytes)); n != v.node {
			w.Failf("nodelist-remove", "NodeList.Remove(%q) returned node %p, the item lives in node %p", v.bytes, n, v.node)
		}
		delete(w.inList, v.bytes)
		w.flag("deleted-node-was-in-application-list")
	}
}

func (w *World) removeLive(v *version, how string) {
	delete(w.live, v.key)
	if v.born == w.currSn {
		// same-epoch delete: physical removal
		for i, o := range w.phys {
			if o == v {
				w.phys = append(w.phys[:i], w.phys[i+1:]...)
				break
			}
		}
		w.flag("same-epoch-delete")
		for _, o := range w.phys {
			if o.key == v.key && o.dead != 0 && o.dead < w.currSn {
				w.flag("reinsert-then-delete-same-epoch")
			}
		}
	} else {
		v.dead = w.currSn
		w.flag("cross-epoch-delete")
		for _, s := range w.snaps {
			if s.refs > 0 && containsKey(w.cfg, s.content, v.key) {
				s.laterDeleted = true
			}
		}
	}
	_ = how
}

func (w *World) Delete(wi int, item []byte) bool {
	w.op()
	key := w.cfg.keyOf(item)
	old := w.live[key]
	w.unlist(old)
	ok := w.ws[wi].Delete(item)
	w.logf("delete(w%d,%s)=%v", wi, q(item), ok)
	if ok != (old != nil) {
		w.Failf("delete-result", "Delete(%s) returned %v but model says key present=%v", q(item), ok, old != nil)
	}
	if ok {
		w.removeLive(old, "delete")
	}
	return ok
}

func (w *World) Delete2(wi int, item []byte) bool {
	w.op()
	key := w.cfg.keyOf(item)
	old := w.live[key]
	w.unlist(old)
	n, ok := w.ws[wi].Delete2(item)
	w.logf("delete2(w%d,%s)=%v", wi, q(item), ok)
	if ok != (old != nil) {
		w.Failf("delete-result", "Delete2(%s) returned %v but model says key present=%v", q(item), ok, old != nil)
	}
	if ok {
		if n != old.node {
			w.Failf("delete-node", "Delete2(%s) removed node %p, the live item is in node %p", q(item), n, old.node)
		}
		w.removeLive(old, "delete2")
	}
	return ok
}

// DeleteNode deletes the live item with the given key through its node handle.
func (w *World) DeleteNode(wi int, key string) {
	w.op()
	old := w.live[key]
	if old == nil {
		return
	}
	w.unlist(old)
	ok := w.ws[wi].DeleteNode(old.node)
	w.logf("deletenode(w%d,%q)=%v", wi, key, ok)
	if !ok {
		w.Failf("deletenode-result", "DeleteNode of the live item %q failed", key)
	}
	if old.born < w.currSn {
		w.flag("deletenode-older-handle")
	}
	w.removeLive(old, "deletenode")
}

func (w *World) GetNode(wi int, item []byte) {
	w.op()
	key := w.cfg.keyOf(item)
	old := w.live[key]
	n := w.ws[wi].GetNode(item)
	w.logf("getnode(w%d,%s)=%v", wi, q(item), n != nil)
	if (n != nil) != (old != nil) {
		w.Failf("getnode-result", "GetNode(%s) found=%v but model says key present=%v", q(item), n != nil, old != nil)
	}
	if n != nil {
		got := nitro.VerifItemFromNode(n).Bytes()
		if string(got) != old.bytes {
			w.Failf("getnode-bytes", "GetNode(%s) returned item %s, stored bytes are %q", q(item), q(got), old.bytes)
		}
		if n != old.node {
			w.Failf("getnode-node", "GetNode(%s) returned node %p, the live item is in node %p", q(item), n, old.node)
		}
	}
}

// ---- snapshots -------------------------------------------------------------

func (w *World) sortedLive() []string {
	vs := make([]*version, 0, len(w.live))
	for _, v := range w.live {
		vs = append(vs, v)
	}
	sort.Slice(vs, func(i, j int) bool { return vs[i].key < vs[j].key })
	out := make([]string, len(vs))
	for i, v := range vs {
		out[i] = v.bytes
	}
	return out
}

func (w *World) NewSnapshot() *snapRec {
	w.op()
	snap, err := w.db.NewSnapshot()
	if err != nil {
		w.Failf("newsnapshot-error", "NewSnapshot: %v", err)
	}
	sn, _ := nitro.VerifSnapshotSn(snap)
	rec := &snapRec{snap: snap, sn: sn, content: w.sortedLive(), refs: 1}
	w.logf("snapshot()=s%d", len(w.snaps))
	if sn != w.currSn {
		w.Failf("snapshot-number", "snapshot has number %d, model epoch is %d", sn, w.currSn)
	}
	w.snaps = append(w.snaps, rec)
	w.currSn++
	if int64(len(rec.content)) != snap.Count() {
		w.Failf("snapshot-count", "new snapshot Count()=%d, model has %d live items", snap.Count(), len(rec.content))
	}
	if int64(len(rec.content)) != w.db.ItemsCount() {
		w.Failf("items-count", "ItemsCount()=%d after NewSnapshot, model has %d live items", w.db.ItemsCount(), len(rec.content))
	}
	return rec
}

// ClosableSnaps returns indexes of snapshots with a reference that actions may close.
func (w *World) ClosableSnaps() []int {
	var out []int
	for i, s := range w.snaps {
		if s.refs-w.pinned[i] > 0 {
			out = append(out, i)
		}
	}
	return out
}

// OpenSnaps returns indexes of snapshots the harness holds a reference on.
func (w *World) OpenSnaps() []int {
	var out []int
	for i, s := range w.snaps {
		if s.refs > 0 {
			out = append(out, i)
		}
	}
	return out
}

func (w *World) Open(i int) {
	w.op()
	s := w.snaps[i]
	ok := s.snap.Open()
	w.logf("open(s%d)=%v", i, ok)
	if ok != (s.refs > 0) {
		w.Failf("open-result", "Open of snapshot s%d returned %v with %d references held", i, ok, s.refs)
	}
	if ok {
		s.refs++
	}
}

func (w *World) gcFrontier() uint32 {
	f := w.firstSn - 1
	for w.retired[f+1] {
		f++
	}
	return f
}

func (w *World) Close(i int) {
	w.op()
	s := w.snaps[i]
	if s.refs <= 0 {
		return
	}
	before := w.gcFrontier()
	s.snap.Close()
	s.refs--
	w.logf("close(s%d)", i)
	if s.refs == 0 {
		w.retired[s.sn] = true
		// non-FIFO close?
		for _, o := range w.snaps {
			if o.refs > 0 && o.sn < s.sn {
				w.flag("non-fifo-close")
			}
			if o.refs > 0 {
				o.otherClosed = true
			}
		}
		w.noteFrontierAdvance(before)
		w.settle()
	}
}

func (w *World) noteFrontierAdvance(before uint32) {
	after := w.gcFrontier()
	if after == before {
		return
	}
	collected := false
	for _, v := range w.phys {
		if v.dead != 0 && v.dead > before && v.dead <= after {
			collected = true
		}
	}
	if collected {
		w.flag("collected-cross-epoch-version")
		for _, o := range w.snaps {
			if o.refs > 0 {
				o.collectedSince = true
				w.flag("collected-while-newer-snapshot-open")
			}
		}
	}
	// drop collected versions from the physical model
	keep := w.phys[:0]
	for _, v := range w.phys {
		if v.dead != 0 && v.dead <= after {
			continue
		}
		keep = append(keep, v)
	}
	w.phys = keep
}

// Scan reads a snapshot front to back with the given refresh rate.
func (w *World) ScanSnap(snap *nitro.Snapshot, refreshRate int) ([]string, bool) {
	it := snap.NewIterator()
	if it == nil {
		return nil, false
	}
	defer it.Close()
	if refreshRate > 0 {
		it.SetRefreshRate(refreshRate)
	}
	var out []string
	limit := 100000
	for it.SeekFirst(); it.Valid(); it.Next() {
		out = append(out, string(it.Get()))
		if limit--; limit == 0 {
			break
		}
	}
	return out, true
}

func diffSeq(got, want []string) string {
	if len(got) <= 300 && len(want) <= 300 {
		return fmt.Sprintf("got  %q\nwant %q", got, want)
	}
	// long sequences: the first difference with some context
	i := 0
	for i < len(got) && i < len(want) && got[i] == want[i] {
		i++
	}
	win := func(s []string) []string {
		lo, hi := i-4, i+8
		if lo < 0 {
			lo = 0
		}
		if hi > len(s) {
			hi = len(s)
		}
		if lo > hi {
			lo = hi
		}
		return s[lo:hi]
	}
	return fmt.Sprintf("lengths got %d want %d; first difference at index %d\ngot  [%d-4..] %q\nwant [%d-4..] %q", len(got), len(want), i, i, win(got), i, win(want))
}

func equalSeq(a, b []string) bool {
	if len(a) != len(b) {
		return false
	}
	for i := range a {
		if a[i] != b[i] {
			return false
		}
	}
	return true
}

// CheckSnap compares a full scan of snapshot i with its frozen content.
func (w *World) CheckSnap(i int, refreshRate int, sig string) {
	s := w.snaps[i]
	got, ok := w.ScanSnap(s.snap, refreshRate)
	if !ok {
		w.Failf("iterator-nil", "NewIterator on open snapshot s%d (refs %d) returned nil", i, s.refs)
	}
	if !equalSeq(got, s.content) {
		w.Failf(sig, "scan of open snapshot s%d (sn %d, refresh %d) differs from its content at creation\n%s", i, s.sn, refreshRate, diffSeq(got, s.content))
	}
	if s.snap.Count() != int64(len(s.content)) {
		w.Failf("snapshot-count", "snapshot s%d Count()=%d, content at creation had %d items", i, s.snap.Count(), len(s.content))
	}
}

// SnapNontrivial reports whether a scan of snapshot i is a non-trivial isolation case.
func (w *World) SnapNontrivial(i int) bool {
	s := w.snaps[i]
	return len(s.content) > 0 && (s.laterDeleted || s.laterReinsert || s.otherClosed || s.collectedSince)
}

// ---- collection --------------------------------------------------------------

type dumpStats struct {
	NodeCount   int64 `json:"node_count"`
	SoftDeletes int64 `json:"soft_deletes"`
	MemoryUsed  int64 `json:"memory_used"`
	NodeAllocs  int64 `json:"node_allocs"`
	NodeFrees   int64 `json:"node_frees"`
}

func (w *World) Stats() dumpStats {
	var d dumpStats
	s := w.db.DumpStats()
	if err := json.Unmarshal([]byte(s), &d); err != nil {
		w.Failf("dumpstats-parse", "DumpStats output is not JSON: %v\n%s", err, s)
	}
	return d
}

// expectedPhysical is the node count the model expects once collection is quiescent.
func (w *World) expectedPhysical() int64 {
	return int64(len(w.phys))
}

func waitLimit() time.Duration {
	if processFailed {
		return 2 * time.Second // shrinking after a real failure: a stuck state stays stuck
	}
	return 30 * time.Second
}

// settle waits until the collection workers have caught up with the model, so that
// the physical state of the structure is a function of the history (determinism).
// Returns whether the state was already settled at the first look.
func (w *World) settle() bool {
	want := w.expectedPhysical()
	deadline := time.Now().Add(waitLimit())
	first := true
	start := time.Now()
	nextGC := 2 * time.Millisecond
	for {
		d := w.Stats()
		if d.NodeCount == want && d.SoftDeletes == 0 {
			if w.Strict && w.memCheck != nil {
				w.memCheck()
			}
			return first
		}
		first = false
		// Two Close calls racing (e.g. StoreToDisk's own release against a Close made from the item
		// callback) may leave a retired snapshot behind the pass that was running: the property promises
		// collection by "a collection pass at quiescence (GC() forces one)", so force one while waiting.
		if waited := time.Since(start); waited > nextGC {
			w.db.GC()
			nextGC = waited + 10*time.Millisecond
		}
		if time.Now().After(deadline) {
			// fewer nodes than the model pins: versions that are live or visible to an open snapshot were
			// removed. That is wrong under every property using this engine (it breaks isolation and the
			// next reader touches reclaimed nodes); more nodes than expected only matters where collection
			// progress itself is judged.
			if !w.Strict && d.NodeCount >= want {
				if w.st != nil {
					w.st.Exclude("inconclusive:collection-did-not-settle")
				}
				if w.inCallback {
					panic(&deferredFailure{sig: "__skip__", msg: "collection did not settle"})
				}
				w.t.Skipf("collection did not settle (node_count=%d want %d); not judged by this property", d.NodeCount, want)
			}
			sig := "gc-incomplete"
			if d.NodeCount < want {
				sig = "gc-premature"
			}
			w.Failf(sig, "collection not quiescent at the model's state: node_count=%d soft_deletes=%d, model expects %d physical versions (live %d, frontier %d)",
				d.NodeCount, d.SoftDeletes, want, len(w.live), w.gcFrontier())
		}
		time.Sleep(20 * time.Microsecond)
	}
}

// GC forces a collection pass; in strict worlds the frontier is checked synchronously.
func (w *World) GC() {
	w.op()
	w.db.GC()
	w.logf("gc()")
	if w.freeRunning {
		// a backup is releasing its reference concurrently: the model may be ahead of the instance
		deadline := time.Now().Add(waitLimit())
		for w.db.GetLastGCSn() != w.gcFrontier() && time.Now().Before(deadline) {
			time.Sleep(100 * time.Microsecond)
			w.db.GC()
		}
	}
	if got, want := w.db.GetLastGCSn(), w.gcFrontier(); got != want && w.Strict {
		w.Failf("gc-frontier", "after GC() GetLastGCSn()=%d, but snapshots 1..%d are all closed (model frontier)", got, want)
	}
	w.settle()
}

// AwaitCollection forces a pass and waits for quiescence.
func (w *World) AwaitCollection() bool {
	w.GC()
	return true
}

// IdleCheck: with user-managed memory an idle instance (no iterator open, collection settled) holds no
// unlinked-but-unfreed node: the allocator's live set is exactly one node and one item per physical
// version plus the two sentinels (C17, second sentence).
func (w *World) IdleCheck() {
	if w.arena == nil || len(w.iters) > 0 {
		return
	}
	w.settle()
	want := 2*len(w.phys) + 2
	deadline := time.Now().Add(waitLimit())
	for {
		live := w.arena.LiveCount()
		if live == want {
			return
		}
		if time.Now().After(deadline) {
			sig := "unfreed-at-idle"
			if live < want {
				sig = "freed-while-live"
			} else if !w.Strict {
				return // leaks are judged by C07/C17, not by every property using the engine
			}
			w.Failf(sig, "instance is idle (no iterator open, collection settled) but the allocator holds %d live blocks; %d physical versions account for %d", live, len(w.phys), want)
		}
		time.Sleep(100 * time.Microsecond)
	}
}

// ---- teardown -----------------------------------------------------------------

// CloseAll releases every reference and iterator held by the harness.
func (w *World) CloseAll() {
	for _, it := range w.iters {
		it.Close()
	}
	w.iters = nil
	for i, s := range w.snaps {
		for s.refs > 0 {
			w.Close(i)
		}
	}
}

// closeDB runs db.Close() under a watchdog.
func (w *World) closeDB() bool {
	done := make(chan struct{})
	go func() {
		defer func() { recover() }()
		w.db.Close()
		close(done)
	}()
	lim := 20 * time.Second
	if processFailed {
		lim = 2 * time.Second
	}
	select {
	case <-done:
		return true
	case <-time.After(lim):
		return false
	}
}

// Shutdown closes the instance (normal path) and returns the allocator report.
func (w *World) Shutdown() guard.Report {
	w.CloseAll()
	w.op()
	if !w.closeDB() {
		w.closed = true
		if w.arena != nil {
			w.arena.Abandon()
		}
		w.Failf("close-hangs", "Nitro.Close() did not return within the watchdog")
	}
	w.closed = true
	w.closedClean = true
	w.logf("closedb()")
	if w.arena != nil {
		return w.arena.Report()
	}
	return guard.Report{}
}

// Teardown is deferred by every case: best-effort orderly shutdown on any exit path.
func (w *World) Teardown() {
	if w.closed {
		if w.arena != nil && w.ownArena && w.closedClean {
			w.arena.Release()
			w.arena = nil
		}
		return
	}
	w.closed = true
	ok := func() (ok bool) {
		defer func() {
			if r := recover(); r != nil {
				ok = false
			}
		}()
		for _, it := range w.iters {
			it.Close()
		}
		for _, s := range w.snaps {
			for s.refs > 0 {
				s.snap.Close()
				s.refs--
			}
		}
		return w.closeDB()
	}()
	if w.arena != nil && w.ownArena {
		if ok {
			w.arena.Release()
		} else {
			w.arena.Abandon()
		}
	}
}

// ---- known findings -------------------------------------------------------------

var knownCache map[string]bool

// Known returns the finding signatures listed in KNOWN_FINDINGS.txt (VERIF_KNOWN).
func Known() map[string]bool {
	if knownCache != nil {
		return knownCache
	}
	knownCache = map[string]bool{}
	path := os.Getenv("VERIF_KNOWN")
	if path == "" {
		return knownCache
	}
	b, err := os.ReadFile(path)
	if err != nil {
		return knownCache
	}
	for _, line := range strings.Split(string(b), "\n") {
		line = strings.TrimSpace(line)
		if !strings.HasPrefix(line, "finding:") {
			continue
		}
		for _, f := range strings.Fields(line) {
			if strings.HasPrefix(f, "sig=") {
				knownCache[strings.TrimPrefix(f, "sig=")] = true
			}
		}
	}
	return knownCache
}
