package nitrocheck

import (
	"testing"

	"pgregory.net/rapid"

	"verif/lib/ev"
	"verif/lib/sched"
)

// C02: Put/Delete/lookup implement a set keyed by the comparator.
//
// Generator: sequences of Put2/Delete/Delete2/DeleteNode/GetNode/NewSnapshot/
// Open/Close through 1-3 writers used from one goroutine, both comparators,
// both memory modes. Oracle: reference set (World model) per operation, and
// Count/ItemsCount/scan at every snapshot.
func TestC02(t *testing.T) {
	st := ev.Get("C02", "TestC02")
	rapid.Check(t, func(t *rapid.T) {
		sched.SeedRand(t)
		cfg := genCfg(t, -1, false)
		w := NewWorld(t, cfg, st)
		defer w.Teardown()
		otherWriterLookup := false
		lastDeleteWriter := -1
		lastDeleteKey := ""
		acts := map[string]func(*rapid.T){
			"put": func(t *rapid.T) { w.Put(w.drawWriter(t), w.genItem(t, true)) },
			"delete": func(t *rapid.T) {
				wi := w.drawWriter(t)
				p := w.genProbe(t)
				var ok bool
				if rapid.Bool().Draw(t, "del2") {
					ok = w.Delete2(wi, p)
				} else {
					ok = w.Delete(wi, p)
				}
				if ok {
					lastDeleteWriter, lastDeleteKey = wi, w.cfg.keyOf(p)
				}
			},
			"deletenode": func(t *rapid.T) {
				if len(w.live) == 0 {
					t.Skip("nothing live")
				}
				keys := w.sortedKeys()
				w.DeleteNode(w.drawWriter(t), keys[rapid.IntRange(0, len(keys)-1).Draw(t, "liveidx")])
			},
			"getnode": func(t *rapid.T) {
				wi := w.drawWriter(t)
				p := w.genProbe(t)
				if lastDeleteWriter >= 0 && wi != lastDeleteWriter && w.cfg.keyOf(p) == lastDeleteKey {
					otherWriterLookup = true
				}
				w.GetNode(wi, p)
			},
			"snapshot": func(t *rapid.T) {
				s := w.NewSnapshot()
				w.CheckSnap(len(w.snaps)-1, 0, "snapshot-content")
				_ = s
			},
			"close": func(t *rapid.T) { w.Close(w.drawOpenSnap(t)) },
			"":      func(t *rapid.T) {},
		}
		acts["put2"] = acts["put"]
		acts["put3"] = acts["put"]
		acts["delete_b"] = acts["delete"]
		acts["getnode_b"] = acts["getnode"]
		t.Repeat(acts)
		// final snapshot: content and counts equal the reference set
		w.NewSnapshot()
		w.CheckSnap(len(w.snaps)-1, 0, "snapshot-content")
		w.settle()
		w.WalkStore("final-")
		rep := w.Shutdown()
		if cfg.MM && !rep.Clean() {
			w.Failf("alloc-report", "allocator report after Close: %v", rep)
		}
		nontrivial := w.flags["rejected-put-different-bytes"] || w.flags["reinsert-then-delete-same-epoch"] ||
			w.flags["deletenode-older-handle"] || otherWriterLookup
		var classes []string
		for f := range w.flags {
			classes = append(classes, f)
		}
		if otherWriterLookup {
			classes = append(classes, "lookup-through-other-writer-after-delete")
		}
		if cfg.MM {
			classes = append(classes, "cfg-mm")
		}
		if cfg.KV {
			classes = append(classes, "cfg-kv")
		}
		st.Case(w.Desc(), nontrivial, classes...)
	})
}
