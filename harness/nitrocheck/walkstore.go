package nitrocheck

import (
	"bytes"
	"time"
	"unsafe"

	"github.com/couchbase/nitro"

	"verif/lib/walk"
)

// storeCompare orders store items like the instance does: by comparator key, then version.
func (w *World) storeCompare() func(a, b unsafe.Pointer) int {
	return func(a, b unsafe.Pointer) int {
		ia, ib := (*nitro.Item)(a), (*nitro.Item)(b)
		var v int
		if w.cfg.KV {
			v = nitro.CompareKV(ia.Bytes(), ib.Bytes())
		} else {
			v = bytes.Compare(ia.Bytes(), ib.Bytes())
		}
		if v == 0 {
			ba, _ := nitro.VerifItemSn(ia)
			bb, _ := nitro.VerifItemSn(ib)
			v = int(ba) - int(bb)
		}
		return v
	}
}

// WalkStore runs the C14 structural predicate on the instance's main store at a
// quiescent point (call right after a NewSnapshot so that writer-local statistics are merged)
// and compares the statistics with the walk and with the model.
func (w *World) WalkStore(sigPrefix string) {
	sl := w.db.VerifStore()
	res, err := walk.Walk(sl, w.storeCompare())
	if err != nil {
		w.Failf(sigPrefix+"structure", "store structure: %v", err)
	}
	// the workers merge their local counters into the store's after each list: give a merge in flight
	// time to land before calling a difference an accounting error
	err = res.CompareStats(sl.Stats.VerifRaw())
	for try := 0; try < 3000 && err != nil; try++ {
		time.Sleep(time.Millisecond)
		err = res.CompareStats(sl.Stats.VerifRaw())
	}
	if err != nil {
		w.Failf(sigPrefix+"stats", "store statistics: %v", err)
	}
	if res.Level0Linked != len(w.phys) {
		w.Failf(sigPrefix+"node-count", "walk finds %d nodes linked at level 0, the model expects %d physical versions", res.Level0Linked, len(w.phys))
	}
}
