package nitrocheck

import (
	"bytes"
	"fmt"
	"os"
	"path/filepath"
	"sync"
	"testing"

	"github.com/couchbase/nitro"
	"pgregory.net/rapid"

	"verif/lib/ev"
	"verif/lib/sched"
)

// C19 with several file writers used at the same time (as StoreToDisk does: one writer per
// shard, driven by concurrent visitor goroutines, plus the delta writers of the GC workers):
// each writer's file must read back as exactly what was written through it, with matching
// checksums. Items of different writers have different lengths.
func TestC19Conc(t *testing.T) {
	st := ev.Get("C19", "TestC19Conc")
	db := nitro.New()
	defer db.Close()
	rapid.Check(t, func(t *rapid.T) {
		sched.SeedRand(t)
		nw := rapid.IntRange(2, 4).Draw(t, "writers")
		n := rapid.IntRange(200, 3000).Draw(t, "items")
		dir := ScratchDir()
		defer os.RemoveAll(dir)
		lens := make([]int, nw)
		for i := range lens {
			lens[i] = rapid.IntRange(1, 40).Draw(t, "len") + i*3
		}
		desc := fmt.Sprintf("writers=%d items=%d lens=%v", nw, n, lens)
		var wg sync.WaitGroup
		errs := make([]string, nw)
		for i := 0; i < nw; i++ {
			wg.Add(1)
			go func(i int) {
				defer wg.Done()
				path := filepath.Join(dir, fmt.Sprintf("w%d", i))
				fw := db.VerifNewFileWriter()
				if err := fw.Open(path); err != nil {
					errs[i] = err.Error()
					return
				}
				var items [][]byte
				for j := 0; j < n; j++ {
					l := lens[i] + j%3
					b := bytes.Repeat([]byte{byte('a' + i)}, l)
					b[0] = byte(j)
					items = append(items, b)
					if err := fw.WriteItem(db.VerifNewItem(b)); err != nil {
						errs[i] = "WriteItem: " + err.Error()
						return
					}
				}
				wsum := fw.Checksum()
				if err := fw.Close(); err != nil {
					errs[i] = "Close: " + err.Error()
					return
				}
				fr := db.VerifNewFileReader(1)
				if err := fr.Open(path); err != nil {
					errs[i] = err.Error()
					return
				}
				defer fr.Close()
				for j := 0; ; j++ {
					itm, err := fr.ReadItem()
					if err != nil {
						errs[i] = fmt.Sprintf("writer %d: ReadItem #%d: %v", i, j, err)
						return
					}
					if itm == nil {
						if j != len(items) {
							errs[i] = fmt.Sprintf("writer %d: %d items read back, %d written", i, j, len(items))
						}
						break
					}
					if j >= len(items) || !bytes.Equal(itm.Bytes(), items[j]) {
						errs[i] = fmt.Sprintf("writer %d: item #%d reads back differently", i, j)
						return
					}
				}
				if errs[i] == "" && (fr.Checksum() != wsum || wsum != refChecksum(items, 4)) {
					errs[i] = fmt.Sprintf("writer %d: checksums differ: reader %#x writer %#x reference %#x", i, fr.Checksum(), wsum, refChecksum(items, 4))
				}
			}(i)
		}
		wg.Wait()
		for _, e := range errs {
			if e != "" {
				processFailed = true
				st.Fail("concurrent-writers", e+"\nCASE: "+desc)
				t.Fatalf("FAIL[concurrent-writers] %s\nCASE: %s", e, desc)
			}
		}
		st.Case(desc, true)
	})
}
