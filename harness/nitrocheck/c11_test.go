package nitrocheck

import (
	"encoding/binary"
	"fmt"
	"os"
	"path/filepath"
	"runtime"
	"sort"
	"strings"
	"testing"
	"time"

	"github.com/couchbase/nitro"
	"pgregory.net/rapid"

	"verif/lib/ev"
	"verif/lib/sched"
)

type backupBase struct {
	cfg     Cfg
	dir     string
	files   map[string][]byte // relative path -> original bytes
	names   []string
	content []string
	desc    string
}

func fileClass(rel string) string {
	switch {
	case rel == "nitro.json":
		return "nitro.json"
	case rel == "data/files.json":
		return "files.json"
	case rel == "data/checksums.json":
		return "checksums.json"
	case strings.HasPrefix(rel, "data/"):
		return "data-shard"
	case rel == "delta/files.json":
		return "delta-files.json"
	case rel == "delta/checksums.json":
		return "delta-checksums.json"
	case strings.HasPrefix(rel, "delta/"):
		return "delta-shard"
	}
	return "other"
}

// makeBase generates a database, stores it and reads the backup directory into memory.
func makeBase(t *rapid.T, st *ev.Stats) (*backupBase, *World) {
	cfg := Cfg{MM: false, KV: rapid.Bool().Draw(t, "kv"), Delta: rapid.Bool().Draw(t, "delta"), NWriters: rapid.IntRange(1, 2).Draw(t, "writers")}
	w := NewWorld(t, cfg, st)
	sizes := []int{0, 1, 3, 8, 20, 20}
	if os.Getenv("VERIF_TIER") == "thorough" {
		sizes = []int{0, 1, 3, 20, 20, 60, 150}
	}
	size := sizes[rapid.IntRange(0, len(sizes)-1).Draw(t, "size")]
	// key styles: sequential ASCII (the linear checksum collides by arithmetic coincidence), pseudo-random hex,
	// zero-led binary (items that look like length prefixes / terminators)
	style := rapid.IntRange(0, 2).Draw(t, "keystyle")
	sequential := style == 0
	w.quiet = true
	for i := 0; i < size; i++ {
		var k []byte
		switch style {
		case 0:
			k = []byte(fmt.Sprintf("k%03d", i))
		case 1:
			k = []byte(fmt.Sprintf("%x", uint32(i+1)*2654435761+uint32(rapid.IntRange(0, 1<<20).Draw(t, "salt"))))
			k = k[:rapid.IntRange(1, len(k)).Draw(t, "klen")]
		default:
			k = []byte{0, 0, byte(i >> 8), byte(i), byte(rapid.IntRange(0, 3).Draw(t, "b4")), byte(rapid.IntRange(0, 255).Draw(t, "b5"))}
			k = k[:rapid.IntRange(4, len(k)).Draw(t, "klen")]
		}
		if cfg.KV {
			k = nitro.KVToBytes(k, []byte(fmt.Sprintf("v%d", i%7)))
		}
		w.Put(i%cfg.NWriters, k)
	}
	w.quiet = false
	w.NewSnapshot()
	i := len(w.snaps) - 1
	dir := ScratchDir()
	mutateAt := 0
	var script []SOp
	if cfg.Delta && size > 1 {
		mutateAt = 1
		script = []SOp{{Kind: 5, W: 0, Sel: rapid.IntRange(0, 1000).Draw(t, "sel")}}
	}
	content := append([]string(nil), w.snaps[i].content...)
	if err := w.Store(i, dir, rapid.IntRange(1, 4).Draw(t, "storeconc"), mutateAt, script); err != nil {
		t.Fatalf("setup: StoreToDisk failed: %v", err)
	}
	b := &backupBase{cfg: cfg, dir: dir, files: map[string][]byte{}, content: content}
	filepath.Walk(dir, func(p string, info os.FileInfo, err error) error {
		if err == nil && !info.IsDir() {
			rel, _ := filepath.Rel(dir, p)
			data, _ := os.ReadFile(p)
			b.files[rel] = data
			b.names = append(b.names, rel)
		}
		return nil
	})
	sort.Strings(b.names)
	var total int
	for _, d := range b.files {
		total += len(d)
	}
	b.desc = fmt.Sprintf("base{kv=%v delta=%v items=%d keystyle=%d files=%d bytes=%d}", cfg.KV, cfg.Delta, len(content), style, len(b.names), total)
	_ = sequential
	return b, w
}

type loadOutcome struct {
	class string // error exact PANIC HANG SILENT-EMPTY SILENT-DIFFERENT
	err   error
	got   []string
	pnc   string
}

var hungLoads int

// loadOnce restores the (damaged) directory into a fresh instance under a watchdog.
func (b *backupBase) loadOnce(conc int) loadOutcome {
	type res struct {
		out loadOutcome
	}
	ch := make(chan loadOutcome, 1)
	go func() {
		var out loadOutcome
		defer func() {
			if p := recover(); p != nil {
				out = loadOutcome{class: "PANIC", pnc: fmt.Sprint(p)}
			}
			ch <- out
		}()
		db := nitro.NewWithConfig(newConfig(b.cfg, nil))
		snap, err := db.LoadFromDisk(b.dir, conc, nil)
		if err != nil {
			out = loadOutcome{class: "error", err: err}
			db.Close()
			return
		}
		var got []string
		it := snap.NewIterator()
		for it.SeekFirst(); it.Valid(); it.Next() {
			got = append(got, string(it.Get()))
			if len(got) > len(b.content)+1000 {
				break
			}
		}
		it.Close()
		cnt := snap.Count()
		snap.Close()
		db.Close()
		switch {
		case equalSeq(got, b.content) && cnt == int64(len(b.content)):
			out = loadOutcome{class: "exact"}
		case len(got) == 0:
			out = loadOutcome{class: "SILENT-EMPTY", got: got}
		default:
			out = loadOutcome{class: "SILENT-DIFFERENT", got: got}
		}
	}()
	deadline := time.Now().Add(10 * time.Minute)
	for {
		select {
		case o := <-ch:
			return o
		case <-time.After(5 * time.Second):
		}
		// not back after 5 s (a load of a few KB takes microseconds unless a damaged length prefix makes it
		// allocate gigabytes). A hang is declared only if the load is provably blocked: its goroutines sit in
		// channel/WaitGroup operations and none of them is reading; a load that is still computing is slow, not stuck.
		if loadBlocked() {
			// confirm: still blocked a little later
			select {
			case o := <-ch:
				return o
			case <-time.After(3 * time.Second):
			}
			if loadBlocked() {
				hungLoads++
				return loadOutcome{class: "HANG"}
			}
		}
		if time.Now().After(deadline) {
			return loadOutcome{class: "INCONCLUSIVE-SLOW"}
		}
	}
}

// loadBlocked inspects all goroutine stacks: true iff some goroutine is inside LoadFromDisk in a
// blocked state and no goroutine is inside the reader / decoder.
func loadBlocked() bool {
	buf := make([]byte, 1<<20)
	n := runtime.Stack(buf, true)
	blocked, working := false, false
	for _, g := range strings.Split(string(buf[:n]), "\n\n") {
		if !strings.Contains(g, "LoadFromDisk") {
			continue
		}
		head := g
		if i := strings.IndexByte(g, '\n'); i >= 0 {
			head = g[:i]
		}
		if strings.Contains(g, "ReadItem") || strings.Contains(g, "DecodeItem") || strings.Contains(g, "Insert") || strings.Contains(g, "Assemble") {
			working = true
		}
		if strings.Contains(head, "chan send") || strings.Contains(head, "chan receive") || strings.Contains(head, "semacquire") || strings.Contains(head, "select") || strings.Contains(head, "sync.WaitGroup") {
			blocked = true
		}
	}
	return blocked && !working
}

type fault struct {
	rel  string
	kind string // remove | truncate | flip
	off  int
	xor  byte // flip: xor mask; 0 = set to zero
}

func (f fault) String() string {
	switch f.kind {
	case "remove":
		return fmt.Sprintf("remove(%s)", f.rel)
	case "truncate":
		return fmt.Sprintf("truncate(%s,%d)", f.rel, f.off)
	}
	if f.xor == 0 {
		return fmt.Sprintf("zero(%s@%d)", f.rel, f.off)
	}
	return fmt.Sprintf("flip(%s@%d^%02x)", f.rel, f.off, f.xor)
}

func (b *backupBase) apply(f fault) bool {
	p := filepath.Join(b.dir, f.rel)
	orig := b.files[f.rel]
	switch f.kind {
	case "remove":
		os.Remove(p)
	case "truncate":
		os.WriteFile(p, orig[:f.off], 0644)
	case "flip":
		d := append([]byte(nil), orig...)
		if f.xor == 0 {
			if d[f.off] == 0 {
				return false
			}
			d[f.off] = 0
		} else {
			d[f.off] ^= f.xor
		}
		os.WriteFile(p, d, 0644)
	}
	return true
}

func (b *backupBase) undo(f fault) {
	os.WriteFile(filepath.Join(b.dir, f.rel), b.files[f.rel], 0644)
}

// expensive reports faults that make the loader allocate gigabytes (most significant
// byte of a 4-byte length prefix set high); they are sampled, not enumerated.
func (b *backupBase) expensive(f fault) bool {
	if f.kind != "flip" || f.xor < 0x40 {
		return false
	}
	cl := fileClass(f.rel)
	if cl != "data-shard" && cl != "delta-shard" {
		return false
	}
	// walk the frames
	d := b.files[f.rel]
	for off := 0; off+4 <= len(d); {
		if off == f.off {
			return true
		}
		l := int(binary.BigEndian.Uint32(d[off:]))
		off += 4 + l
	}
	return false
}

// C11: restore detects damaged backups - error or exact, never silent, never stuck.
func TestC11(t *testing.T) {
	st := ev.Get("C11", "TestC11")
	tier := os.Getenv("VERIF_TIER")
	known := Known()
	rapid.Check(t, func(t *rapid.T) {
		sched.SeedRand(t)
		b, w := makeBase(t, st)
		defer os.RemoveAll(b.dir)
		defer w.Teardown()
		phase := rapid.IntRange(0, 7).Draw(t, "phase")
		concs := []int{1, 2, 16, 17}
		concRot := rapid.IntRange(0, 3).Draw(t, "concrot")
		// sanity: the undamaged backup loads exactly
		if o := b.loadOnce(2); o.class != "exact" {
			t.Fatalf("setup: undamaged backup does not load exactly: %+v (%s)", o, b.desc)
		}
		bad := map[string]string{} // signature -> first example
		skipHang := map[string]int{}
		n := 0
		expensiveDone := 0
		expensiveBudget := 2
		if tier == "thorough" {
			expensiveBudget = 8
		}
		try := func(f fault, conc int, label string) {
			cl := fileClass(f.rel)
			sigBase := cl + ":" + f.kind
			if skipHang[sigBase+fmt.Sprint(conc)] > 0 {
				skipHang[sigBase+fmt.Sprint(conc)]++
				st.Exclude("skipped-after-first-hang:" + sigBase)
				return
			}
			if b.expensive(f) {
				if expensiveDone >= expensiveBudget {
					st.Exclude("sampled-out:length-prefix-msb-flip")
					return
				}
				expensiveDone++
			}
			if !b.apply(f) {
				return
			}
			o := b.loadOnce(conc)
			b.undo(f)
			n++
			st.Case(b.desc+" "+f.String()+fmt.Sprintf(" conc=%d", conc), true, "outcome-"+o.class, "file-"+cl, "kind-"+f.kind)
			if o.class == "error" || o.class == "exact" {
				return
			}
			if o.class == "INCONCLUSIVE-SLOW" {
				st.Exclude("inconclusive-slow-load")
				return
			}
			sig := fmt.Sprintf("%s:%s:%s", cl, f.kind, o.class)
			if o.class == "HANG" {
				skipHang[sigBase+fmt.Sprint(conc)] = 1
			}
			if known[sig] {
				st.KnownFinding(sig)
				return
			}
			if _, ok := bad[sig]; !ok {
				detail := ""
				if o.class == "PANIC" {
					detail = " panic: " + o.pnc
				}
				if strings.HasPrefix(o.class, "SILENT") {
					detail = fmt.Sprintf(" loaded %d items instead of %d, no error", len(o.got), len(b.content))
				}
				bad[sig] = fmt.Sprintf("%s conc=%d%s", f.String(), conc, detail)
			}
			_ = label
		}
		for fi, rel := range b.names {
			data := b.files[rel]
			conc := concs[(fi+concRot)%4]
			try(fault{rel: rel, kind: "remove"}, conc, "")
			// truncations: every length (sampled in quick for large files)
			for l := 0; l < len(data); l++ {
				if tier != "thorough" && len(data) > 64 && l%8 != phase {
					continue
				}
				try(fault{rel: rel, kind: "truncate", off: l}, concs[(l+concRot)%4], "")
			}
			for off := 0; off < len(data); off++ {
				if tier != "thorough" && len(data) > 64 && off%8 != phase {
					continue
				}
				for mi, m := range []byte{0x01, 0x80, 0xff, 0x00} {
					try(fault{rel: rel, kind: "flip", off: off, xor: m}, concs[(off+mi+concRot)%4], "")
				}
			}
		}
		// multi-fault: damage >= conc shard files at once (each load worker meets a bad shard)
		var shards []string
		for _, rel := range b.names {
			if fileClass(rel) == "data-shard" {
				shards = append(shards, rel)
			}
		}
		for _, conc := range []int{1, 2, 16} {
			for rep := 0; rep < 3; rep++ {
				k := conc
				if k > len(shards) {
					k = len(shards)
				}
				var fs []fault
				for j := 0; j < k; j++ {
					rel := shards[(j*3+rep)%len(shards)]
					kind := []string{"truncate", "flip", "remove"}[(j+rep)%3]
					f := fault{rel: rel, kind: kind}
					if kind == "truncate" {
						f.off = len(b.files[rel]) / 2
					}
					if kind == "flip" {
						f.off = len(b.files[rel]) - 1
						f.xor = 0x01
					}
					fs = append(fs, f)
				}
				for _, f := range fs {
					b.apply(f)
				}
				o := b.loadOnce(conc)
				for _, f := range fs {
					b.undo(f)
				}
				n++
				st.Case(b.desc+fmt.Sprintf(" multi%v conc=%d", fs, conc), true, "outcome-"+o.class, "multi-fault")
				if o.class != "error" && o.class != "exact" && o.class != "INCONCLUSIVE-SLOW" {
					sig := "multi-shard:" + o.class
					if known[sig] {
						st.KnownFinding(sig)
					} else if _, ok := bad[sig]; !ok {
						bad[sig] = fmt.Sprintf("%v conc=%d", fs, conc)
					}
				}
			}
		}
		st.AddExtra("bases", 1)
		if len(bad) > 0 {
			sigs := make([]string, 0, len(bad))
			for s := range bad {
				sigs = append(sigs, s)
			}
			sort.Strings(sigs)
			msg := ""
			for _, s := range sigs {
				msg += fmt.Sprintf("\n  %-40s e.g. %s", s, bad[s])
			}
			processFailed = true
			st.Fail(sigs[0], fmt.Sprintf("damaged backup not handled (error-or-exact) for %d fault signatures on %s:%s", len(sigs), b.desc, msg))
			t.Fatalf("FAIL[%s] damaged backup not handled (error-or-exact) for %d fault signatures on %s:%s", sigs[0], len(sigs), b.desc, msg)
		}
	})
}
