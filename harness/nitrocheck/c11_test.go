package nitrocheck

import (
	"bytes"
	"encoding/binary"
	"fmt"
	"os"
	"path/filepath"
	"runtime"
	"sort"
	"strings"
	"sync"
	"testing"
	"time"

	"github.com/couchbase/nitro"
	"pgregory.net/rapid"

	"verif/lib/ev"
	"verif/lib/sched"
)

type backupBase struct {
	cfg     Cfg
	dir     string
	files   map[string][]byte // relative path -> original bytes
	names   []string
	content []string
	desc    string
}

func fileClass(rel string) string {
	switch {
	case rel == "nitro.json":
		return "nitro.json"
	case rel == "data/files.json":
		return "files.json"
	case rel == "data/checksums.json":
		return "checksums.json"
	case strings.HasPrefix(rel, "data/"):
		return "data-shard"
	case rel == "delta/files.json":
		return "delta-files.json"
	case rel == "delta/checksums.json":
		return "delta-checksums.json"
	case strings.HasPrefix(rel, "delta/"):
		return "delta-shard"
	}
	return "other"
}

// makeBase generates a database, stores it and reads the backup directory into memory.
func makeBase(t *rapid.T, st *ev.Stats) (*backupBase, *World) {
	return makeBaseCfg(t, st, rapid.Bool().Draw(t, "delta"))
}

func makeBaseCfg(t *rapid.T, st *ev.Stats, delta bool) (*backupBase, *World) {
	// the delta base always uses the key-value comparator: its restore path hands items to the comparator
	cfg := Cfg{MM: false, KV: rapid.Bool().Draw(t, "kv") || delta, Delta: delta, NWriters: rapid.IntRange(1, 2).Draw(t, "writers")}
	w := NewWorld(t, cfg, st)
	sizes := []int{0, 1, 3, 8, 20, 20}
	if os.Getenv("VERIF_TIER") == "thorough" {
		sizes = []int{0, 1, 3, 20, 20, 60, 150}
	}
	size := sizes[rapid.IntRange(0, len(sizes)-1).Draw(t, "size")]
	if delta && size < 8 {
		size = 8 // so that the delta files get content
	}
	// key styles: sequential ASCII (the linear checksum collides by arithmetic coincidence), pseudo-random hex,
	// zero-led binary (items that look like length prefixes / terminators)
	style := rapid.IntRange(0, 2).Draw(t, "keystyle")
	sequential := style == 0
	w.quiet = true
	for i := 0; i < size; i++ {
		var k []byte
		switch style {
		case 0:
			k = []byte(fmt.Sprintf("k%03d", i))
		case 1:
			k = []byte(fmt.Sprintf("%x", uint32(i+1)*2654435761+uint32(rapid.IntRange(0, 1<<20).Draw(t, "salt"))))
			k = k[:rapid.IntRange(1, len(k)).Draw(t, "klen")]
		default:
			k = []byte{0, 0, byte(i >> 8), byte(i), byte(rapid.IntRange(0, 3).Draw(t, "b4")), byte(rapid.IntRange(0, 255).Draw(t, "b5"))}
			k = k[:rapid.IntRange(4, len(k)).Draw(t, "klen")]
		}
		if cfg.KV {
			k = nitro.KVToBytes(k, []byte(fmt.Sprintf("v%d", i%7)))
		}
		w.Put(i%cfg.NWriters, k)
	}
	w.quiet = false
	w.NewSnapshot()
	i := len(w.snaps) - 1
	dir := ScratchDir()
	mutateAt := 0
	var script []SOp
	if cfg.Delta && size > 1 {
		mutateAt = 1
		script = []SOp{{Kind: 5, W: 0, Sel: rapid.IntRange(0, 1000).Draw(t, "sel")}}
	}
	content := append([]string(nil), w.snaps[i].content...)
	if err := w.Store(i, dir, rapid.IntRange(1, 4).Draw(t, "storeconc"), mutateAt, script); err != nil {
		t.Fatalf("setup: StoreToDisk failed: %v", err)
	}
	b := &backupBase{cfg: cfg, dir: dir, files: map[string][]byte{}, content: content}
	filepath.Walk(dir, func(p string, info os.FileInfo, err error) error {
		if err == nil && !info.IsDir() {
			rel, _ := filepath.Rel(dir, p)
			data, _ := os.ReadFile(p)
			b.files[rel] = data
			b.names = append(b.names, rel)
		}
		return nil
	})
	sort.Strings(b.names)
	var total int
	for _, d := range b.files {
		total += len(d)
	}
	b.desc = fmt.Sprintf("base{kv=%v delta=%v items=%d keystyle=%d files=%d bytes=%d}", cfg.KV, cfg.Delta, len(content), style, len(b.names), total)
	_ = sequential
	return b, w
}

type loadOutcome struct {
	class string // error exact PANIC HANG SILENT-EMPTY SILENT-DIFFERENT
	err   error
	got   []string
	pnc   string
}

var hungLoads int

// loadOnce restores the (damaged) directory into a fresh instance under a watchdog.
func (b *backupBase) loadOnce(conc int) loadOutcome {
	type res struct {
		out loadOutcome
	}
	ch := make(chan loadOutcome, 1)
	go func() {
		var out loadOutcome
		defer func() {
			if p := recover(); p != nil {
				out = loadOutcome{class: "PANIC", pnc: fmt.Sprint(p)}
			}
			ch <- out
		}()
		db := nitro.NewWithConfig(newConfig(b.cfg, nil))
		snap, err := db.LoadFromDisk(b.dir, conc, nil)
		if err != nil {
			out = loadOutcome{class: "error", err: err}
			db.Close()
			return
		}
		var got []string
		it := snap.NewIterator()
		for it.SeekFirst(); it.Valid(); it.Next() {
			got = append(got, string(it.Get()))
			if len(got) > len(b.content)+1000 {
				break
			}
		}
		it.Close()
		cnt := snap.Count()
		snap.Close()
		db.Close()
		switch {
		case equalSeq(got, b.content) && cnt == int64(len(b.content)):
			out = loadOutcome{class: "exact"}
		case len(got) == 0:
			out = loadOutcome{class: "SILENT-EMPTY", got: got}
		default:
			out = loadOutcome{class: "SILENT-DIFFERENT", got: got}
		}
	}()
	deadline := time.Now().Add(10 * time.Minute)
	for {
		select {
		case o := <-ch:
			return o
		case <-time.After(5 * time.Second):
		}
		// not back after 5 s (a load of a few KB takes microseconds unless a damaged length prefix makes it
		// allocate gigabytes). A hang is declared only if the load is provably blocked: its goroutines sit in
		// channel/WaitGroup operations and none of them is reading; a load that is still computing is slow, not stuck.
		if loadBlocked() {
			// confirm: still blocked a little later
			select {
			case o := <-ch:
				return o
			case <-time.After(3 * time.Second):
			}
			if loadBlocked() {
				hungLoads++
				return loadOutcome{class: "HANG"}
			}
		}
		if time.Now().After(deadline) {
			return loadOutcome{class: "INCONCLUSIVE-SLOW"}
		}
	}
}

// loadBlocked inspects all goroutine stacks: true iff some goroutine is inside LoadFromDisk in a
// blocked state and no goroutine is inside the reader / decoder.
func loadBlocked() bool {
	buf := make([]byte, 1<<20)
	n := runtime.Stack(buf, true)
	blocked, working := false, false
	for _, g := range strings.Split(string(buf[:n]), "\n\n") {
		if !strings.Contains(g, "LoadFromDisk") {
			continue
		}
		head := g
		if i := strings.IndexByte(g, '\n'); i >= 0 {
			head = g[:i]
		}
		if strings.Contains(g, "ReadItem") || strings.Contains(g, "DecodeItem") || strings.Contains(g, "Insert") || strings.Contains(g, "Assemble") {
			working = true
		}
		if strings.Contains(head, "chan send") || strings.Contains(head, "chan receive") || strings.Contains(head, "semacquire") || strings.Contains(head, "select") || strings.Contains(head, "sync.WaitGroup") {
			blocked = true
		}
	}
	return blocked && !working
}

// xorChecksumCollision reports whether the damaged bytes of a shard file still parse (up to a
// terminator) to a stream whose XOR-of-CRC32 checksum equals the checksum recorded for that file:
// the loader's checksum cannot see such damage (the checksum is linear and order-independent).
func (b *backupBase) xorChecksumCollision(f fault) bool {
	cl := fileClass(f.rel)
	if cl != "data-shard" && cl != "delta-shard" {
		return false
	}
	d := append([]byte(nil), b.files[f.rel]...)
	switch f.kind {
	case "truncate":
		d = d[:f.off]
	case "flip":
		if f.xor == 0 {
			d[f.off] = 0
		} else {
			d[f.off] ^= f.xor
		}
	default:
		return false
	}
	var items [][]byte
	terminated := false
	for off := 0; off+4 <= len(d); {
		l := int(binary.BigEndian.Uint32(d[off:]))
		if l == 0 {
			terminated = true
			break
		}
		if off+4+l > len(d) {
			return false
		}
		items = append(items, d[off+4:off+4+l])
		off += 4 + l
	}
	if !terminated {
		return false
	}
	var origItems [][]byte
	o := b.files[f.rel]
	for off := 0; off+4 <= len(o); {
		l := int(binary.BigEndian.Uint32(o[off:]))
		if l == 0 {
			break
		}
		origItems = append(origItems, o[off+4:off+4+l])
		off += 4 + l
	}
	return refChecksum(items, 4) == refChecksum(origItems, 4)
}

type fault struct {
	rel  string
	kind string // remove | truncate | flip
	off  int
	xor  byte // flip: xor mask; 0 = set to zero
}

func (f fault) String() string {
	switch f.kind {
	case "remove":
		return fmt.Sprintf("remove(%s)", f.rel)
	case "truncate":
		return fmt.Sprintf("truncate(%s,%d)", f.rel, f.off)
	}
	if f.xor == 0 {
		return fmt.Sprintf("zero(%s@%d)", f.rel, f.off)
	}
	return fmt.Sprintf("flip(%s@%d^%02x)", f.rel, f.off, f.xor)
}

func (b *backupBase) apply(f fault) bool {
	p := filepath.Join(b.dir, f.rel)
	orig := b.files[f.rel]
	switch f.kind {
	case "remove":
		os.Remove(p)
	case "truncate":
		os.WriteFile(p, orig[:f.off], 0644)
	case "flip":
		d := append([]byte(nil), orig...)
		if f.xor == 0 {
			if d[f.off] == 0 {
				return false
			}
			d[f.off] = 0
		} else {
			d[f.off] ^= f.xor
		}
		os.WriteFile(p, d, 0644)
	}
	return true
}

func (b *backupBase) undo(f fault) {
	os.WriteFile(filepath.Join(b.dir, f.rel), b.files[f.rel], 0644)
}

// expensive reports faults that make the loader allocate gigabytes (most significant
// byte of a 4-byte length prefix set high); they are sampled, not enumerated.
func (b *backupBase) expensive(f fault) bool {
	if f.kind != "flip" || f.xor < 0x40 {
		return false
	}
	cl := fileClass(f.rel)
	if cl != "data-shard" && cl != "delta-shard" {
		return false
	}
	// walk the frames
	d := b.files[f.rel]
	for off := 0; off+4 <= len(d); {
		if off == f.off {
			return true
		}
		l := int(binary.BigEndian.Uint32(d[off:]))
		off += 4 + l
	}
	return false
}

// C11: restore detects damaged backups - error or exact, never silent, never stuck.
func TestC11(t *testing.T) {
	st := ev.Get("C11", "TestC11")
	tier := os.Getenv("VERIF_TIER")
	known := Known()
	rapid.Check(t, func(t *rapid.T) {
		sched.SeedRand(t)
		// every case enumerates one backup without and one with delta files
		for _, delta := range []bool{false, true} {
			c11Enumerate(t, st, tier, known, delta)
		}
	})
	// the two fixed backups (few-letter keys with running numbers: many shards share an XOR checksum):
	// every byte of their manifests with every mask
	for which := 0; which < 2; which++ {
		b := fuzzBaseFor(t, which)
		bad := map[string]string{}
		for _, rel := range b.names {
			cl := fileClass(rel)
			if cl == "data-shard" || cl == "delta-shard" {
				continue
			}
			step := 7
			if tier == "thorough" {
				step = 1
			}
			for off := 0; off < len(b.files[rel]); off++ {
				for m := 1; m < 256; m++ {
					// masks 1..15 turn one decimal digit into another (shard names, checksums): always; the rest sampled in quick
					// and the masks that turn a digit into a path character ('/', '.') spell an existing file differently: always
					c := b.files[rel][off]
					alias := c >= '0' && c <= '9' && (byte(m) == c^'/' || byte(m) == c^'.')
					if m > 15 && (m-1)%step != off%step && !alias {
						continue
					}
					f := fault{rel: rel, kind: "flip", off: off, xor: byte(m)}
					b.apply(f)
					o := b.loadOnce(1 + (off+m)%3)
					b.undo(f)
					st.Case(b.desc+" "+f.String(), true, "outcome-"+o.class, "file-"+cl, "kind-flip")
					if o.class != "error" && o.class != "exact" && o.class != "INCONCLUSIVE-SLOW" {
						sig := fmt.Sprintf("%s:flip:%s", cl, o.class)
						if _, ok := bad[sig]; !ok && !known[sig] {
							bad[sig] = fmt.Sprintf("%s: %s (%d items instead of %d)", f.String(), o.class, len(o.got), len(b.content))
						}
					}
				}
			}
		}
		for sig, ex := range bad {
			st.Fail(sig, b.desc+": "+ex)
			t.Fatalf("FAIL[%s] damaged manifest not handled on %s: %s", sig, b.desc, ex)
		}
	}
}

func c11Enumerate(t *rapid.T, st *ev.Stats, tier string, known map[string]bool, delta bool) {
	{
		b, w := makeBaseCfg(t, st, delta)
		defer os.RemoveAll(b.dir)
		defer w.Teardown()
		phase := rapid.IntRange(0, 7).Draw(t, "phase")
		concs := []int{1, 2, 16, 17}
		concRot := rapid.IntRange(0, 3).Draw(t, "concrot")
		// sanity: the undamaged backup loads exactly
		if o := b.loadOnce(2); o.class != "exact" {
			t.Fatalf("setup: undamaged backup does not load exactly: %+v (%s)", o, b.desc)
		}
		bad := map[string]string{} // signature -> first example
		skipHang := map[string]int{}
		n := 0
		expensiveDone := 0
		expensiveBudget := 2
		if tier == "thorough" {
			expensiveBudget = 8
		}
		try := func(f fault, conc int, label string) {
			cl := fileClass(f.rel)
			sigBase := cl + ":" + f.kind
			if skipHang[sigBase+fmt.Sprint(conc)] > 0 {
				skipHang[sigBase+fmt.Sprint(conc)]++
				st.Exclude("skipped-after-first-hang:" + sigBase)
				return
			}
			if b.expensive(f) {
				if expensiveDone >= expensiveBudget {
					st.Exclude("sampled-out:length-prefix-msb-flip")
					return
				}
				expensiveDone++
			}
			if !b.apply(f) {
				return
			}
			o := b.loadOnce(conc)
			b.undo(f)
			n++
			st.Case(b.desc+" "+f.String()+fmt.Sprintf(" conc=%d", conc), true, "outcome-"+o.class, "file-"+cl, "kind-"+f.kind)
			if o.class == "error" || o.class == "exact" {
				return
			}
			if o.class == "INCONCLUSIVE-SLOW" {
				st.Exclude("inconclusive-slow-load")
				return
			}
			sig := fmt.Sprintf("%s:%s:%s", cl, f.kind, o.class)
			if strings.HasPrefix(o.class, "SILENT") && b.xorChecksumCollision(f) {
				sig = "shard:xor-checksum-collision"
			}
			if os.Getenv("C11DBG") != "" {
				fmt.Printf("C11DBG %s conc=%d -> %s got=%q want=%q\n", f.String(), conc, o.class, o.got, b.content)
				for _, n := range b.names {
					fmt.Printf("C11DBG   %s = %x\n", n, b.files[n])
				}
			}
			if o.class == "HANG" {
				skipHang[sigBase+fmt.Sprint(conc)] = 1
			}
			if known[sig] {
				st.KnownFinding(sig)
				return
			}
			if _, ok := bad[sig]; !ok {
				detail := ""
				if o.class == "PANIC" {
					detail = " panic: " + o.pnc
				}
				if strings.HasPrefix(o.class, "SILENT") {
					detail = fmt.Sprintf(" loaded %d items instead of %d, no error", len(o.got), len(b.content))
				}
				bad[sig] = fmt.Sprintf("%s conc=%d%s", f.String(), conc, detail)
			}
			_ = label
		}
		for fi, rel := range b.names {
			data := b.files[rel]
			conc := concs[(fi+concRot)%4]
			try(fault{rel: rel, kind: "remove"}, conc, "")
			// truncations: every length (sampled in quick for large files)
			for l := 0; l < len(data); l++ {
				if tier != "thorough" && len(data) > 64 && l%8 != phase {
					continue
				}
				try(fault{rel: rel, kind: "truncate", off: l}, concs[(l+concRot)%4], "")
			}
			for off := 0; off < len(data); off++ {
				isShard := fileClass(rel) == "data-shard" || fileClass(rel) == "delta-shard"
				// the digits of a manifest (shard numbers, checksums) are never sampled away: one changed digit names another file
				digit := !isShard && data[off] >= '0' && data[off] <= '9'
				if tier != "thorough" && len(data) > 64 && off%8 != phase && (isShard || off%2 != phase%2) && !digit {
					continue
				}
				masks := []byte{0x01, 0x80, 0xff, 0x00}
				if cl := fileClass(rel); cl != "data-shard" && cl != "delta-shard" {
					// manifests are small text files: more masks (thorough: every value a byte can change to)
					masks = []byte{0x01, 0x02, 0x03, 0x04, 0x07, 0x08, 0x10, 0x20, 0x40, 0x80, 0xff, 0x00}
					if digit {
						// a digit turned into a path character spells an existing file differently ("shard-1/" for "shard-10")
						masks = append(masks, data[off]^'/', data[off]^'.')
					}
					if tier == "thorough" {
						masks = masks[:0]
						for m := 1; m < 256; m++ {
							masks = append(masks, byte(m))
						}
					}
				} else if tier == "thorough" {
					masks = []byte{0x01, 0x02, 0x04, 0x08, 0x10, 0x20, 0x40, 0x80, 0xff, 0x00}
				}
				for mi, m := range masks {
					try(fault{rel: rel, kind: "flip", off: off, xor: m}, concs[(off+mi+concRot)%4], "")
				}
			}
		}
		// multi-fault: damage >= conc shard files at once (each load worker meets a bad shard)
		var shards []string
		for _, rel := range b.names {
			if fileClass(rel) == "data-shard" {
				shards = append(shards, rel)
			}
		}
		for _, conc := range []int{1, 2, 16} {
			for rep := 0; rep < 3; rep++ {
				k := conc
				if k > len(shards) {
					k = len(shards)
				}
				var fs []fault
				for j := 0; j < k; j++ {
					rel := shards[(j*3+rep)%len(shards)]
					kind := []string{"truncate", "flip", "remove"}[(j+rep)%3]
					f := fault{rel: rel, kind: kind}
					if kind == "truncate" {
						f.off = len(b.files[rel]) / 2
					}
					if kind == "flip" {
						f.off = len(b.files[rel]) - 1
						f.xor = 0x01
					}
					fs = append(fs, f)
				}
				for _, f := range fs {
					b.apply(f)
				}
				o := b.loadOnce(conc)
				for _, f := range fs {
					b.undo(f)
				}
				n++
				st.Case(b.desc+fmt.Sprintf(" multi%v conc=%d", fs, conc), true, "outcome-"+o.class, "multi-fault")
				if o.class != "error" && o.class != "exact" && o.class != "INCONCLUSIVE-SLOW" {
					sig := "multi-shard:" + o.class
					if known[sig] {
						st.KnownFinding(sig)
					} else if _, ok := bad[sig]; !ok {
						bad[sig] = fmt.Sprintf("%v conc=%d", fs, conc)
					}
				}
			}
		}
		st.AddExtra("bases", 1)
		if len(bad) > 0 {
			sigs := make([]string, 0, len(bad))
			for s := range bad {
				sigs = append(sigs, s)
			}
			sort.Strings(sigs)
			msg := ""
			for _, s := range sigs {
				msg += fmt.Sprintf("\n  %-40s e.g. %s", s, bad[s])
			}
			processFailed = true
			st.Fail(sigs[0], fmt.Sprintf("damaged backup not handled (error-or-exact) for %d fault signatures on %s:%s", len(sigs), b.desc, msg))
			t.Fatalf("FAIL[%s] damaged backup not handled (error-or-exact) for %d fault signatures on %s:%s", sigs[0], len(sigs), b.desc, msg)
		}
	}
}

var (
	fuzzBases    []*backupBase
	fuzzBaseOnce sync.Once
)

// fuzzBase builds (once per process) fixed backups for the byte-level fuzz target:
// bytes comparator without delta, and KV comparator with real delta content.
func fuzzBaseFor(t *testing.T, which int) *backupBase {
	fuzzBaseOnce.Do(func() {
		for _, cfg := range []Cfg{{NWriters: 1}, {KV: true, Delta: true, NWriters: 2}} {
			ft := &plainTB{t}
			w := NewWorld(ft, cfg, nil)
			w.quiet = true
			for i := 0; i < 24; i++ {
				k := []byte(fmt.Sprintf("%c%02d", 'a'+i%5, i))
				if cfg.KV {
					k = nitro.KVToBytes(k, []byte{byte(i)})
				}
				w.Put(i%cfg.NWriters, k)
			}
			w.NewSnapshot()
			dir := ScratchDir()
			var script []SOp
			mutateAt := 0
			if cfg.Delta {
				mutateAt = 1
				script = []SOp{{Kind: 5, W: 0, Sel: 77}}
			}
			content := append([]string(nil), w.snaps[0].content...)
			if err := w.Store(0, dir, 2, mutateAt, script); err != nil {
				t.Fatalf("setup: %v", err)
			}
			b := &backupBase{cfg: cfg, dir: dir, files: map[string][]byte{}, content: content}
			filepath.Walk(dir, func(p string, info os.FileInfo, err error) error {
				if err == nil && !info.IsDir() {
					rel, _ := filepath.Rel(dir, p)
					data, _ := os.ReadFile(p)
					b.files[rel] = data
					b.names = append(b.names, rel)
				}
				return nil
			})
			sort.Strings(b.names)
			b.desc = fmt.Sprintf("fuzzbase{kv=%v delta=%v items=%d}", cfg.KV, cfg.Delta, len(content))
			fuzzBases = append(fuzzBases, b)
			w.Teardown()
		}
	})
	return fuzzBases[which%len(fuzzBases)]
}

type plainTB struct{ t *testing.T }

func (p *plainTB) Fatalf(format string, args ...any) { p.t.Fatalf(format, args...) }
func (p *plainTB) Logf(format string, args ...any)   {}
func (p *plainTB) Skipf(format string, args ...any)  { p.t.Skipf(format, args...) }

// FuzzC11 lets the coverage-guided fuzzer choose multi-fault damage: the input is decoded
// into up to 6 faults (file, kind, offset, value) applied together to a fixed backup.
func FuzzC11(f *testing.F) {
	st := ev.Get("C11", "FuzzC11")
	f.Add([]byte{0, 3, 2, 0, 8, 1})
	f.Add([]byte{1, 5, 1, 0, 0, 0, 6, 2, 0, 3, 0x80})
	f.Add([]byte{0, 2, 0, 0, 0, 0, 2, 0, 0, 0, 0, 4, 1, 0, 9, 0})
	f.Fuzz(func(t *testing.T, data []byte) { fuzzC11Body(t, st, data) })
}

// TestC11Multi drives the same multi-fault body with rapid-drawn bytes (no coverage guidance).
func TestC11Multi(t *testing.T) {
	st := ev.Get("C11", "TestC11Multi")
	rapid.Check(t, func(rt *rapid.T) {
		data := rapid.SliceOfN(rapid.Byte(), 6, 31).Draw(rt, "faultbytes")
		fuzzC11Body(t, st, data)
	})
}

func fuzzC11Body(t *testing.T, st *ev.Stats, data []byte) {
	{
		if len(data) < 6 {
			return
		}
		b := fuzzBaseFor(t, int(data[0]))
		conc := []int{1, 2, 16, 17}[int(data[0]>>4)%4]
		var fs []fault
		for p := 1; p+5 <= len(data) && len(fs) < 6; p += 5 {
			rel := b.names[int(data[p])%len(b.names)]
			orig := b.files[rel]
			kind := []string{"flip", "flip", "truncate", "remove"}[int(data[p+1])%4]
			off := 0
			if len(orig) > 0 {
				off = (int(data[p+2]) | int(data[p+3])<<8) % len(orig)
			}
			fl := fault{rel: rel, kind: kind, off: off, xor: data[p+4]}
			if kind == "flip" && len(orig) == 0 {
				continue
			}
			if b.expensive(fl) {
				continue // gigabyte allocations: enumerated (sampled) by TestC11
			}
			dup := false
			for _, o := range fs {
				if o.rel == rel {
					dup = true
				}
			}
			if !dup {
				fs = append(fs, fl)
			}
		}
		// the property quantifies over single faults anywhere and over combinations damaging several
		// *shard* files at once; a combination that also removes an optional manifest (no checksums.json /
		// no nitro.json = a legacy backup by design) is outside that domain
		if len(fs) >= 2 {
			keep := fs[:0]
			for _, fl := range fs {
				if cl := fileClass(fl.rel); cl == "data-shard" || cl == "delta-shard" {
					keep = append(keep, fl)
				}
			}
			fs = keep
		}
		if len(fs) == 0 {
			return
		}
		for _, fl := range fs {
			b.apply(fl)
		}
		o := b.loadOnce(conc)
		for _, fl := range fs {
			b.undo(fl)
		}
		st.Case(fmt.Sprintf("%s %v conc=%d", b.desc, fs, conc), len(fs) >= 2, "outcome-"+o.class)
		if strings.HasPrefix(o.class, "SILENT") {
			for _, fl := range fs {
				if b.xorChecksumCollision(fl) && Known()["shard:xor-checksum-collision"] {
					st.KnownFinding("shard:xor-checksum-collision")
					return
				}
			}
		}
		if o.class != "error" && o.class != "exact" && o.class != "INCONCLUSIVE-SLOW" {
			st.Fail("multi-fault:"+o.class, fmt.Sprintf("%s faults %v conc=%d: %s %s", b.desc, fs, conc, o.class, o.pnc))
			t.Fatalf("FAIL[multi-fault:%s] %s faults %v conc=%d: LoadFromDisk %s %s (%d items, expected %d)", o.class, b.desc, fs, conc, o.class, o.pnc, len(o.got), len(b.content))
		}
	}
}

// TestC11KnownFinding replays the minimal input of the listed finding
// shard:xor-checksum-collision on a hand-built backup directory, so that every run
// reports it (KNOWN-FINDING) while it exists, and notices if it changes shape.
func TestC11KnownFinding(t *testing.T) {
	st := ev.Get("C11", "TestC11KnownFinding")
	known := Known()
	frame := func(items ...string) ([]byte, uint32) {
		var buf bytes.Buffer
		var raw [][]byte
		for _, it := range items {
			var hdr [4]byte
			binary.BigEndian.PutUint32(hdr[:], uint32(len(it)))
			buf.Write(hdr[:])
			buf.WriteString(it)
			raw = append(raw, []byte(it))
		}
		buf.Write([]byte{0, 0, 0, 0})
		return buf.Bytes(), refChecksum(raw, 4)
	}
	dir := ScratchDir()
	defer os.RemoveAll(dir)
	os.MkdirAll(filepath.Join(dir, "data"), 0755)
	os.MkdirAll(filepath.Join(dir, "delta"), 0755)
	d0, c0 := frame("k000", "k001", "k007")
	x0, cx := frame("k006", "k005", "k004", "k003", "k002")
	os.WriteFile(filepath.Join(dir, "nitro.json"), []byte(`{"version":1}`), 0644)
	os.WriteFile(filepath.Join(dir, "data", "files.json"), []byte(`["shard-0"]`), 0644)
	os.WriteFile(filepath.Join(dir, "data", "checksums.json"), []byte(fmt.Sprintf("[%d]", c0)), 0644)
	os.WriteFile(filepath.Join(dir, "data", "shard-0"), d0, 0644)
	os.WriteFile(filepath.Join(dir, "delta", "files.json"), []byte(`["shard-0"]`), 0644)
	os.WriteFile(filepath.Join(dir, "delta", "checksums.json"), []byte(fmt.Sprintf("[%d]", cx)), 0644)
	os.WriteFile(filepath.Join(dir, "delta", "shard-0"), x0, 0644)
	want := []string{"k000", "k001", "k002", "k003", "k004", "k005", "k006", "k007"}
	b := &backupBase{cfg: Cfg{Delta: true, NWriters: 1}, dir: dir, content: want, files: map[string][]byte{"delta/shard-0": x0}}
	if o := b.loadOnce(1); o.class != "exact" {
		t.Fatalf("hand-built backup does not load exactly: %+v", o)
	}
	f := fault{rel: "delta/shard-0", kind: "flip", off: 11, xor: 0}
	b.apply(f)
	o := b.loadOnce(1)
	b.undo(f)
	st.Case("hand-built delta backup k000..k007 "+f.String(), true, "outcome-"+o.class)
	st.Case("hand-built delta backup k000..k007 undamaged", true, "outcome-exact")
	switch {
	case o.class == "error":
		t.Logf("the listed finding shard:xor-checksum-collision no longer reproduces (load returned %v)", o.err)
	case strings.HasPrefix(o.class, "SILENT") && b.xorChecksumCollision(f) && known["shard:xor-checksum-collision"]:
		st.KnownFinding("shard:xor-checksum-collision")
	default:
		st.Fail("known-finding-replay:"+o.class, fmt.Sprintf("replay of the checksum-collision input gave %s (%d items)", o.class, len(o.got)))
		t.Fatalf("FAIL[known-finding-replay:%s] replay of the checksum-collision input gave %s (%d items) %s", o.class, o.class, len(o.got), o.pnc)
	}
}
