package nitrocheck

import (
	"sort"
	"sync"

	"github.com/couchbase/nitro"
)

// VisitShards runs Visitor and returns the callback sequence of every shard id.
// inject, if non-nil, is consulted before an item is recorded and may return an error.
func VisitShards(db *nitro.Nitro, snap *nitro.Snapshot, shards, conc int, inject func(shard, idx int) error) (map[int][]string, error) {
	var mu sync.Mutex
	parts := map[int][]string{}
	err := db.Visitor(snap, func(itm *nitro.Item, shard int) error {
		mu.Lock()
		defer mu.Unlock()
		if inject != nil {
			if e := inject(shard, len(parts[shard])); e != nil {
				return e
			}
		}
		parts[shard] = append(parts[shard], string(itm.Bytes()))
		return nil
	}, shards, conc)
	return parts, err
}

// ConcatShards concatenates per-shard sequences in shard order.
func ConcatShards(parts map[int][]string) []string {
	ids := make([]int, 0, len(parts))
	for id := range parts {
		ids = append(ids, id)
	}
	sort.Ints(ids)
	var out []string
	for _, id := range ids {
		out = append(out, parts[id]...)
	}
	return out
}
