package nitrocheck

import (
	"fmt"
	"sort"
	"sync/atomic"
	"testing"
	"time"

	"github.com/couchbase/nitro"
	"github.com/couchbase/nitro/skiplist"
	"pgregory.net/rapid"

	"verif/lib/ev"
	"verif/lib/sched"
)

// C10 on large databases: Visitor gives its per-shard cursor a refresh rate of 10000 items, so a
// shard longer than that re-creates its cursor in mid-flight, and the pivots come from higher
// levels of the structure than small databases have. The generated history puts the invisible
// versions (deleted-later, re-inserted-later, born-later, dead-earlier) where the cursor will be
// when it refreshes. Sequential and deterministic; the model is a sorted list per snapshot.
type snapRecL struct {
	snap    *nitro.Snapshot
	content []string
	name    string
}

func TestC10Large(t *testing.T) {
	st := ev.Get("C10", "TestC10Large")
	fail := func(t *rapid.T, sig, desc, format string, args ...any) {
		msg := fmt.Sprintf(format, args...)
		processFailed = true
		st.Fail(sig, msg+"\nCASE: "+desc)
		t.Fatalf("FAIL[%s] %s\nCASE: %s", sig, msg, desc)
	}
	rapid.Check(t, func(t *rapid.T) {
		sched.SeedRand(t)
		cfg := Cfg{KV: rapid.Bool().Draw(t, "kv"), NWriters: 1}
		db := nitro.NewWithConfig(newConfig(cfg, nil))
		var snaps []*snapRecL
		// a failing case must not wait for the snapshots it still holds (Close waits for them), nor for a visit that hangs
		defer func() {
			for _, s := range snaps {
				s.snap.Close()
			}
			closed := make(chan struct{})
			go func() { db.Close(); close(closed) }()
			select {
			case <-closed:
			case <-time.After(5 * time.Second):
			}
		}()
		wr := db.NewWriter()
		n := rapid.IntRange(10050, 14000).Draw(t, "n")
		item := func(k string, gen int) []byte {
			if cfg.KV {
				return nitro.KVToBytes([]byte(k), []byte(fmt.Sprintf("g%d", gen)))
			}
			return []byte(k)
		}
		live := map[string]string{} // key -> item bytes
		desc := fmt.Sprintf("%v n=%d", cfg, n)
		put := func(k string, gen int) {
			it := item(k, gen)
			if (wr.Put2(it) != nil) != (live[k] == "") {
				fail(t, "put-result", desc, "Put2(%q) disagrees with the model (present=%v)", k, live[k] != "")
			}
			if live[k] == "" {
				live[k] = string(it)
			}
		}
		del := func(k string) {
			if wr.Delete(item(k, 0)) != (live[k] != "") {
				fail(t, "delete-result", desc, "Delete(%q) disagrees with the model (present=%v)", k, live[k] != "")
			}
			delete(live, k)
		}
		snapshot := func(name string) *snapRecL {
			s, err := db.NewSnapshot()
			if err != nil {
				t.Fatalf("NewSnapshot: %v", err)
			}
			keys := make([]string, 0, len(live))
			for k := range live {
				keys = append(keys, k)
			}
			sort.Strings(keys)
			c := make([]string, len(keys))
			for i, k := range keys {
				c[i] = live[k]
			}
			r := &snapRecL{snap: s, content: c, name: name}
			snaps = append(snaps, r)
			return r
		}
		key := func(i int) string { return fmt.Sprintf("k%06d", i) }
		// an earlier generation that is dead before the first snapshot of interest (dead-earlier versions)
		pre := rapid.IntRange(0, 2).Draw(t, "pre")
		if pre > 0 {
			for i := 9900; i < 10100; i += pre {
				put(key(i), 0)
			}
			s := snapshot("pre")
			for i := 9900; i < 10100; i += pre {
				del(key(i))
			}
			if rapid.Bool().Draw(t, "keeppre") {
				desc += " pre-open"
			} else {
				s.snap.Close()
				snaps = snaps[:0]
				desc += " pre-closed"
			}
		}
		for i := 0; i < n; i++ {
			put(key(i), 1)
		}
		snapshot("s0")
		// windows of later mutations around the positions where a shard's cursor refreshes
		nwin := rapid.IntRange(1, 3).Draw(t, "windows")
		invisibleNearRefresh := false
		for wi := 0; wi < nwin; wi++ {
			center := []int{10000, 10001, 9999, 10002}[rapid.IntRange(0, 3).Draw(t, "center")] + rapid.IntRange(-3, 3).Draw(t, "jitter")
			width := rapid.IntRange(1, 12).Draw(t, "width")
			kind := rapid.IntRange(0, 3).Draw(t, "kind")
			desc += fmt.Sprintf(" win(center=%d,width=%d,kind=%d)", center, width, kind)
			for i := center - width; i <= center+width && i < n; i++ {
				switch kind {
				case 0: // delete: the version stays for s0, invisible to later snapshots
					if live[key(i)] != "" {
						del(key(i))
					}
				case 1: // delete and re-insert: two versions of the key
					if live[key(i)] != "" {
						del(key(i))
					}
				case 2: // new keys in between
					put(key(i)+".5", 2)
				case 3: // new keys, deleted again in the same epoch (unlinked at once)
					put(key(i)+".5", 2)
					del(key(i) + ".5")
				}
			}
			if kind == 1 {
				snapshot(fmt.Sprintf("w%dmid", wi))
				for i := center - width; i <= center+width && i < n; i++ {
					put(key(i), 3)
				}
			}
			snapshot(fmt.Sprintf("w%d", wi))
			invisibleNearRefresh = true
		}
		// optionally release some snapshots so that their garbage is collected before the visit
		for i := 0; i < len(snaps)-1; i++ {
			if rapid.IntRange(0, 3).Draw(t, "release") == 0 {
				snaps[i].snap.Close()
				desc += " closed:" + snaps[i].name
				snaps = append(snaps[:i], snaps[i+1:]...)
				i--
			}
		}
		if rapid.Bool().Draw(t, "gc") {
			db.GC()
			deadline := time.Now().Add(2 * time.Second)
			for time.Now().Before(deadline) {
				if retired, running, gcq, freeq := db.VerifGCState(); !running && gcq == 0 && freeq == 0 && (retired == 0 || len(snaps) > 0) {
					break
				}
				time.Sleep(time.Millisecond)
			}
			desc += " gc"
		}
		refreshed := false
		for _, s := range snaps {
			shards := []int{1, 1, 2, 3, 7}[rapid.IntRange(0, 4).Draw(t, "shards")]
			conc := rapid.IntRange(1, 3).Draw(t, "conc")
			type res struct {
				parts map[int][]string
				err   error
			}
			ch := make(chan res, 1)
			go func() {
				p, err := VisitShards(db, s.snap, shards, conc, nil)
				ch <- res{p, err}
			}()
			var r res
			select {
			case r = <-ch:
			case <-time.After(60 * time.Second):
				fail(t, "visitor-hang", desc, "Visitor(%s, shards=%d, conc=%d) did not return within 60 s", s.name, shards, conc)
			}
			if r.err != nil {
				fail(t, "visitor-spurious-error", desc, "Visitor(%s) returned %v", s.name, r.err)
			}
			for id, p := range r.parts {
				if id < 0 || id >= shards {
					fail(t, "visitor-shard-id", desc, "Visitor(%s, shards=%d) used shard id %d", s.name, shards, id)
				}
				if len(p) > 10001 {
					refreshed = true
				}
			}
			got := ConcatShards(r.parts)
			if !equalSeq(got, s.content) {
				fail(t, "visitor-content", desc, "Visitor(%s, shards=%d, conc=%d) on %d items: concatenation of the shards differs from the snapshot content\n%s",
					s.name, shards, conc, len(s.content), diffSeq(got, s.content))
			}
			if int(s.snap.Count()) != len(s.content) {
				fail(t, "snapshot-count", desc, "Count() of %s = %d, model %d", s.name, s.snap.Count(), len(s.content))
			}
		}
		// steered visit: a complete writer operation is placed between two atomic steps of the visiting
		// goroutine (a legal interleaving, made deterministic through the skiplist's yield points). At a
		// drawn delivered item the callback deletes the item's key and puts it again (the new version
		// follows the delivered one and is invisible to the snapshot); a drawn number of cursor steps later
		// the key is deleted again, which unlinks the new version at once - under the cursor or next to it.
		steered := false
		if rapid.IntRange(0, 2).Draw(t, "steer") > 0 && len(snaps) > 0 {
			s := snaps[len(snaps)-1] // nothing was mutated since: its content is the live set
			if len(s.content) > 10010 {
				nt := rapid.IntRange(1, 4).Draw(t, "targets")
				targets := map[int]int{} // delivered index -> cursor steps until the second delete
				for i := 0; i < nt; i++ {
					var idx int
					if rapid.IntRange(0, 3).Draw(t, "tclass") == 0 {
						idx = rapid.IntRange(0, 10000).Draw(t, "tidx")
					} else {
						idx = rapid.IntRange(10001, len(s.content)-2).Draw(t, "tidx")
					}
					targets[idx] = rapid.IntRange(1, 6).Draw(t, "tsteps")
				}
				desc += fmt.Sprintf(" steer(%s,%v)", s.name, targets)
				var (
					armed    int32
					armedGid int64
					inHook   bool
					armedKey string
					fired    int
					got      []string
					cbErr    string
				)
				skiplist.VerifSetHooks(func(point int) {
					if atomic.LoadInt32(&armed) == 0 || point != skiplist.VerifPtGetNext || sched.Goid() != armedGid || inHook {
						return
					}
					if atomic.AddInt32(&armed, -1) == 0 {
						inHook = true
						if !wr.Delete(item(armedKey, 0)) {
							cbErr = fmt.Sprintf("steered Delete(%q) of the re-inserted key failed", armedKey)
						}
						delete(live, armedKey)
						fired++
						inHook = false
					}
				}, nil)
				done := make(chan error, 1)
				go func() {
					done <- db.Visitor(s.snap, func(itm *nitro.Item, shard int) error {
						idx := len(got)
						got = append(got, string(itm.Bytes()))
						if steps, ok := targets[idx]; ok && atomic.LoadInt32(&armed) == 0 {
							k := cfg.keyOf(itm.Bytes())
							if live[k] == "" {
								return nil // an earlier target's second delete has not happened; keep the model simple
							}
							inHook = true
							if !wr.Delete(item(k, 0)) {
								cbErr = fmt.Sprintf("steered Delete(%q) from the callback failed", k)
							}
							it := item(k, 9)
							if wr.Put2(it) == nil {
								cbErr = fmt.Sprintf("steered Put(%q) from the callback failed", k)
							}
							live[k] = string(it)
							inHook = false
							armedKey, armedGid = k, sched.Goid()
							atomic.StoreInt32(&armed, int32(steps))
						}
						return nil
					}, 1, 1)
				}()
				var err error
				select {
				case err = <-done:
				case <-time.After(60 * time.Second):
					skiplist.VerifSetHooks(nil, nil)
					fail(t, "visitor-hang", desc, "steered Visitor(%s) did not return within 60 s", s.name)
				}
				skiplist.VerifSetHooks(nil, nil)
				if cbErr != "" {
					fail(t, "steered-writer", desc, "%s", cbErr)
				}
				if err != nil {
					fail(t, "visitor-spurious-error", desc, "steered Visitor(%s) returned %v", s.name, err)
				}
				if !equalSeq(got, s.content) {
					fail(t, "visitor-content", desc, "steered Visitor(%s) on %d items (%d second deletes placed under the cursor): the delivered sequence differs from the snapshot content\n%s",
						s.name, len(s.content), fired, diffSeq(got, s.content))
				}
				steered = fired > 0
				// and the state the writer left behind is what a fresh snapshot shows
				f := snapshot("final")
				parts, err := VisitShards(db, f.snap, 2, 2, nil)
				if err != nil {
					fail(t, "visitor-spurious-error", desc, "Visitor(final) returned %v", err)
				}
				if g := ConcatShards(parts); !equalSeq(g, f.content) {
					fail(t, "visitor-content", desc, "Visitor(final) after the steered visit differs from the model\n%s", diffSeq(g, f.content))
				}
			}
		}
		for _, s := range snaps {
			s.snap.Close()
		}
		snaps = nil
		var classes []string
		if steered {
			classes = append(classes, "writer-steered-under-refreshed-cursor")
		}
		if refreshed {
			classes = append(classes, "shard-longer-than-refresh-rate")
		}
		st.Case(desc, refreshed && invisibleNearRefresh, classes...)
	})
}
