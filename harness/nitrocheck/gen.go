package nitrocheck

import (
	"fmt"
	"os"
	"sort"
	"strconv"

	"github.com/couchbase/nitro"
	"pgregory.net/rapid"

	"verif/lib/guard"
)

func envInt(name string, def int) int {
	if v := os.Getenv(name); v != "" {
		if n, err := strconv.Atoi(v); err == nil {
			return n
		}
	}
	return def
}

// genKey draws a comparator key: mostly 1-2 symbols over {a,b,c,d} (collisions,
// prefixes), sometimes binary with 0x00/0xFF, sometimes long.
func genKey(t *rapid.T, allowEmpty bool) []byte {
	switch c := rapid.IntRange(0, 19).Draw(t, "keyclass"); {
	case c < 15:
		n := rapid.IntRange(1, 2).Draw(t, "klen")
		b := make([]byte, n)
		for i := range b {
			b[i] = "abcd"[rapid.IntRange(0, 3).Draw(t, "ksym")]
		}
		return b
	case c < 18:
		lo := 1
		if allowEmpty {
			lo = 0
		}
		n := rapid.IntRange(lo, 3).Draw(t, "klen")
		b := make([]byte, n)
		for i := range b {
			b[i] = []byte{0x00, 0xff, 0x01, 'a', 0x80}[rapid.IntRange(0, 4).Draw(t, "ksym")]
		}
		return b
	default:
		n := rapid.IntRange(20, 300).Draw(t, "klen")
		b := make([]byte, n)
		c := "abcd"[rapid.IntRange(0, 3).Draw(t, "ksym")]
		for i := range b {
			b[i] = c
		}
		b[n-1] = "abcd"[rapid.IntRange(0, 3).Draw(t, "ksym")]
		return b
	}
}

// genItem draws item bytes for a Put. Under the KV comparator the value is
// different on every Put (derived from the op counter) half of the time.
func (w *World) genItem(t *rapid.T, allowEmpty bool) []byte {
	k := genKey(t, allowEmpty && !w.cfg.KV)
	if !w.cfg.KV {
		return k
	}
	var v []byte
	switch rapid.IntRange(0, 3).Draw(t, "vclass") {
	case 0:
		v = nil
	case 1:
		v = []byte{byte(rapid.IntRange(0, 255).Draw(t, "vbyte"))}
	default:
		v = []byte(fmt.Sprintf("v%d", w.opn))
	}
	return nitro.KVToBytes(k, v)
}

// genProbe draws item bytes used to address a key (Delete / GetNode): a key
// currently live with good probability, else any key. Under KV the probe's
// value differs from the stored one.
func (w *World) genProbe(t *rapid.T) []byte {
	var k []byte
	if len(w.live) > 0 && rapid.IntRange(0, 9).Draw(t, "probelive") < 6 {
		keys := w.sortedKeys()
		k = []byte(keys[rapid.IntRange(0, len(keys)-1).Draw(t, "liveidx")])
	} else {
		k = genKey(t, !w.cfg.KV)
	}
	if !w.cfg.KV {
		return k
	}
	return nitro.KVToBytes(k, []byte("probe"))
}

func (w *World) sortedKeys() []string {
	c := w.sortedLive()
	out := make([]string, len(c))
	for i, b := range c {
		out[i] = w.cfg.keyOf([]byte(b))
	}
	return out
}

func genCfg(t *rapid.T, forceMM int, allowDelta bool) Cfg {
	cfg := Cfg{}
	switch forceMM {
	case 0:
		cfg.MM = false
	case 1:
		cfg.MM = true
	default:
		cfg.MM = rapid.Bool().Draw(t, "mm")
	}
	cfg.GuardMode = guard.Trap
	cfg.KV = rapid.Bool().Draw(t, "kv")
	if allowDelta {
		cfg.Delta = rapid.Bool().Draw(t, "delta")
	}
	cfg.NWriters = rapid.IntRange(1, 3).Draw(t, "writers")
	cfg.NodeList = rapid.IntRange(0, 2).Draw(t, "nodelist") == 0
	return cfg
}

func (w *World) drawWriter(t *rapid.T) int {
	if len(w.ws) == 1 {
		return 0
	}
	return rapid.IntRange(0, len(w.ws)-1).Draw(t, "writer")
}

func (w *World) drawOpenSnap(t *rapid.T) int {
	open := w.OpenSnaps()
	if len(open) == 0 {
		t.Skip("no open snapshot")
	}
	return open[rapid.IntRange(0, len(open)-1).Draw(t, "snap")]
}

func (w *World) drawClosableSnap(t *rapid.T) int {
	open := w.ClosableSnaps()
	if len(open) == 0 {
		t.Skip("no closable snapshot")
	}
	return open[rapid.IntRange(0, len(open)-1).Draw(t, "snap")]
}

func sortStrings(s []string) { sort.Strings(s) }

// runSkippable runs an action; returns false if it skipped (t.Skip) before drawing or acting.
func runSkippable(t *rapid.T, f func(*rapid.T)) (ran bool) {
	defer func() {
		if r := recover(); r != nil {
			if isSkip(r) {
				ran = false
				return
			}
			panic(r)
		}
	}()
	f(t)
	return true
}

func isSkip(r any) bool {
	return fmt.Sprintf("%T", r) == "rapid.invalidData"
}
