package nitrocheck

import (
	"os"
	"runtime"
	"testing"

	"github.com/couchbase/nitro"
	"pgregory.net/rapid"

	"verif/lib/ev"
	"verif/lib/sched"
)

// storeLoadCycle backs up a drawn open snapshot, restores it into a fresh
// instance, compares, runs further steps on the restored instance and shuts it down.
// Returns whether the cycle was a non-trivial backup case.
func (w *World) storeLoadCycle(t *rapid.T, st *ev.Stats, checkAlloc bool) (nontrivial bool) {
	return w.storeLoadCycleOf(t, st, checkAlloc, w.drawOpenSnap(t), false)
}

// oldSnapshotBackup builds the shape in which a backup's snapshot is the oldest open one and younger,
// already closed snapshots hold deletes of its items: delete some of its keys, seal, close the younger
// snapshot(s), then back it up handing over the last reference.
func (w *World) oldSnapshotBackup(t *rapid.T, st *ev.Stats, checkAlloc bool) bool {
	open := w.OpenSnaps()
	if len(open) == 0 {
		t.Skip("no open snapshot")
	}
	i := open[0]
	s := w.snaps[i]
	if len(s.content) == 0 || s.refs-w.pinned[i] <= 0 {
		t.Skip("oldest snapshot empty")
	}
	n := rapid.IntRange(1, 6).Draw(t, "olddeletes")
	wi := w.drawWriter(t)
	for j := 0; j < n; j++ {
		c := s.content[rapid.IntRange(0, len(s.content)-1).Draw(t, "oldkey")]
		k := w.cfg.keyOf([]byte(c))
		if w.live[k] != nil {
			w.Delete(wi, w.probeFor([]byte(k)))
		}
	}
	if len(w.OpenSnaps()) < 8 {
		w.NewSnapshot()
	}
	// close every snapshot younger than s, and all but one reference of s
	for j := range w.snaps {
		if j != i {
			for w.snaps[j].refs-w.pinned[j] > 0 {
				w.Close(j)
			}
		}
	}
	for s.refs-w.pinned[i] > 1 {
		w.Close(i)
	}
	return w.storeLoadCycleOf(t, st, checkAlloc, i, true)
}

// reversionedBackup backs up an older snapshot many of whose keys have newer physical versions
// (deleted and re-inserted after it was taken), on a database large enough for the backup's range
// partitioning to pick pivots among them.
func (w *World) reversionedBackup(t *rapid.T, st *ev.Stats, checkAlloc bool) bool {
	if len(w.OpenSnaps()) >= 7 {
		t.Skip("too many snapshots")
	}
	if len(w.live) < 40 {
		w.bulkPut(t)
		w.bulkPut(t)
	}
	w.NewSnapshot()
	i := len(w.snaps) - 1
	s := w.snaps[i]
	if len(s.content) == 0 {
		t.Skip("empty")
	}
	wi := w.drawWriter(t)
	stride := rapid.IntRange(1, 3).Draw(t, "reversionstride")
	w.quiet = true
	n := 0
	for j := rapid.IntRange(0, 2).Draw(t, "reversionfrom"); j < len(s.content); j += stride {
		item := []byte(s.content[j])
		k := w.cfg.keyOf(item)
		if w.live[k] == nil {
			continue
		}
		w.Delete(wi, w.probeFor([]byte(k)))
		if w.cfg.KV {
			w.Put(wi, nitro.KVToBytes([]byte(k), []byte("reversioned")))
		} else {
			w.Put(wi, item)
		}
		n++
	}
	w.quiet = false
	w.logf("reversion(s%d,%d keys)", i, n)
	if rapid.Bool().Draw(t, "sealreversion") && len(w.OpenSnaps()) < 8 {
		w.NewSnapshot()
	}
	return w.storeLoadCycleOf(t, st, checkAlloc, i, false)
}

func (w *World) storeLoadCycleOf(t *rapid.T, st *ev.Stats, checkAlloc bool, i int, forceConsume bool) (nontrivial bool) {
	s := w.snaps[i]
	nitro.DiskBlockSize = []int{512 * 1024, 64, 16}[rapid.IntRange(0, 2).Draw(t, "blocksize")]
	defer func() { nitro.DiskBlockSize = 512 * 1024 }()
	conc := rapid.IntRange(1, 8).Draw(t, "storeconc")
	loadConc := []int{1, 2, 4, 8, 17}[rapid.IntRange(0, 4).Draw(t, "loadconc")]
	mutateAt := 0
	var script []SOp
	if len(s.content) > 0 && rapid.Bool().Draw(t, "mutate") {
		mutateAt = rapid.IntRange(1, min(len(s.content), 6)).Draw(t, "mutateat")
		// free-running mutator goroutine instead of the callback hand-over. Only with delta interleaving: there
		// StoreToDisk gives its reference up before the scan (the model is at worst ahead of the instance and
		// settle() waits for it); without it the reference is released when StoreToDisk returns, possibly
		// while the script is still running, and the model cannot know when.
		if w.cfg.Delta && rapid.IntRange(0, 1).Draw(t, "freerunning") == 0 {
			mutateAt = -1
		}
		script = w.drawScript(t, rapid.IntRange(1, 12).Draw(t, "scriptlen"))
	}
	writersBefore := rapid.Bool().Draw(t, "writersbefore")
	post := rapid.IntRange(0, 25).Draw(t, "postlen")
	// classification at store time
	otherVersion := false
	for _, c := range s.content {
		k := w.cfg.keyOf([]byte(c))
		n := 0
		for _, v := range w.phys {
			if v.key == k {
				n++
			}
		}
		if n >= 2 {
			otherVersion = true
		}
	}
	latest := i == len(w.snaps)-1 && len(w.live) == len(s.content)
	dir := ScratchDir()
	defer os.RemoveAll(dir)
	consume := s.refs-w.pinned[i] > 0 && (forceConsume || rapid.Bool().Draw(t, "consume"))
	err := w.Store2(i, dir, conc, mutateAt, script, consume)
	if err != nil {
		st.Class("store-returned-error", 1)
		w.logf("store error: %v", err)
		return false
	}
	w2, err := LoadWorld(t, w.cfg, dir, loadConc, writersBefore, st, w)
	defer w2.Teardown()
	if err != nil {
		w2.Failf("load-error-after-successful-store", "StoreToDisk returned nil but LoadFromDisk failed: %v", err)
	}
	r := w2.snaps[0]
	if !equalSeq(r.content, s.content) {
		w2.Failf("restore-content", "items delivered by the restore differ from the stored snapshot s%d (sn %d)\n%s", i, s.sn, diffSeq(r.content, s.content))
	}
	got, ok := w2.ScanSnap(r.snap, 0)
	if !ok {
		w2.Failf("iterator-nil", "NewIterator on the restored snapshot returned nil")
	}
	if !equalSeq(got, s.content) {
		w2.Failf("restore-content", "scan of the restored snapshot differs from the stored snapshot s%d (sn %d)\n%s", i, s.sn, diffSeq(got, s.content))
	}
	if r.snap.Count() != int64(len(s.content)) {
		w2.Failf("restore-count", "restored snapshot Count()=%d, stored snapshot had %d items", r.snap.Count(), len(s.content))
	}
	if w2.db.ItemsCount() != int64(len(s.content)) {
		w2.Failf("restore-count", "restored ItemsCount()=%d, stored snapshot had %d items", w2.db.ItemsCount(), len(s.content))
	}
	if d := w2.Stats(); d.NodeCount != int64(len(s.content)) {
		w2.Failf("restore-node-count", "restored instance has node_count=%d for %d items", d.NodeCount, len(s.content))
	}
	// the restored structure passes the structural predicate of C14 (LoadFromDisk ends with a snapshot: statistics are merged)
	w2.WalkStore("restored-")
	delta := w2.db.DeltaRestored
	if delta > 0 {
		st.Class("delta-restored-items", 1)
	}
	// the restored instance obeys the set/snapshot semantics for subsequent operations
	w2.runScript(w2.drawScript(t, post))
	w2.NewSnapshot()
	w2.settle()
	w2.WalkStore("restored-later-")
	for _, j := range w2.OpenSnaps() {
		w2.CheckSnap(j, 0, "restored-snapshot-isolation")
	}
	rep := w2.Shutdown()
	if checkAlloc && w.cfg.MM && !rep.Clean() {
		w2.Failf("alloc-report-restored", "allocator report after Close of the restored instance: %v", rep)
	}
	w.logf("restored+%d steps ok", post)
	return len(s.content) > 0 && (otherVersion || delta > 0 || !latest)
}

// C05: backup and restore reproduce the stored snapshot exactly.
func TestC05(t *testing.T) {
	rapid.Check(t, backupProp(ev.Get("C05", "TestC05")))
}

// C14 for structures produced by LoadFromDisk: the same backup/restore histories; what is judged for C14 is
// the structural walk and the statistics of every restored store, right after the restore and again after
// further operations (WalkStore), on top of the round trip itself.
func TestC14Store(t *testing.T) {
	rapid.Check(t, backupProp(ev.Get("C14", "TestC14Store")))
}

// C05 on a machine with one CPU: StoreToDisk partitions into runtime.NumCPU() shards, so the single-shard
// path of the backup is only reachable when the process sees one CPU. The driver runs this test under
// `taskset -c 0`; without that it skips.
func TestC05OneCPU(t *testing.T) {
	if runtime.NumCPU() != 1 {
		t.Skip("needs a process restricted to one CPU (taskset -c 0)")
	}
	rapid.Check(t, backupProp(ev.Get("C05", "TestC05OneCPU")))
}

func backupProp(st *ev.Stats) func(t *rapid.T) {
	return func(t *rapid.T) {
		sched.SeedRand(t)
		cfg := genCfg(t, -1, true)
		w := NewWorld(t, cfg, st)
		defer w.Teardown()
		nontrivial := false
		cycles := 0
		acts := w.seqActions()
		acts["put2"] = acts["put"]
		acts["snapshot_b"] = acts["snapshot"]
		acts["bulkput"] = w.bulkPut
		acts["bulkdelete"] = w.bulkDelete
		cycle := func(t *rapid.T) {
			if cycles >= 3 {
				t.Skip("enough backups")
			}
			if len(w.OpenSnaps()) == 0 {
				t.Skip("no open snapshot")
			}
			cycles++
			if w.storeLoadCycle(t, st, false) {
				nontrivial = true
			}
		}
		acts["backup"] = cycle
		acts["backup_b"] = cycle
		acts["backup_old"] = func(t *rapid.T) {
			if cycles >= 3 {
				t.Skip("enough backups")
			}
			cycles++
			if w.oldSnapshotBackup(t, st, false) {
				nontrivial = true
			}
		}
		acts["backup_reversioned"] = func(t *rapid.T) {
			if cycles >= 3 {
				t.Skip("enough backups")
			}
			cycles++
			if w.reversionedBackup(t, st, false) {
				nontrivial = true
				st.Class("reversioned-old-snapshot-backup", 1)
			}
		}
		acts[""] = func(t *rapid.T) {}
		t.Repeat(acts)
		if cycles == 0 {
			if len(w.OpenSnaps()) == 0 {
				w.NewSnapshot()
			}
			cycles++
			if w.storeLoadCycle(t, st, false) {
				nontrivial = true
			}
		}
		for _, j := range w.OpenSnaps() {
			w.CheckSnap(j, 0, "snapshot-isolation")
		}
		w.Shutdown()
		var classes []string
		if cfg.Delta {
			classes = append(classes, "cfg-delta")
		}
		if cfg.MM {
			classes = append(classes, "cfg-mm")
		}
		if w.flags["mutated-during-backup"] {
			classes = append(classes, "mutated-during-backup")
		}
		st.Case(w.Desc(), nontrivial, classes...)
		st.AddExtra("backups", int64(cycles))
	}
}
