package nitrocheck

import (
	"fmt"
	"os"
	"path/filepath"
	"sync"
	"sync/atomic"
	"time"

	"github.com/couchbase/nitro"
	"github.com/couchbase/nitro/skiplist"
	"pgregory.net/rapid"

	"verif/lib/ev"
	"verif/lib/guard"
)

var scratchSeq int64

// ScratchDir returns a fresh empty directory for one backup.
func ScratchDir() string {
	base := os.Getenv("VERIF_TMP")
	if base == "" {
		base = os.TempDir()
	}
	d := filepath.Join(base, fmt.Sprintf("nitro-verif-%d-%d", os.Getpid(), atomic.AddInt64(&scratchSeq, 1)))
	os.RemoveAll(d)
	os.MkdirAll(d, 0755)
	return d
}

// deferredFailure is panicked by Failf while the world runs inside a callback of
// the code under test (foreign goroutine); the caller re-raises it on the test goroutine.
type deferredFailure struct {
	sig, msg string
}

// SOp is a pre-drawn mutation step (drawn on the test goroutine, executed later,
// possibly from inside an ItemCallback).
type SOp struct {
	Kind int // 0 put, 1 delete, 2 snapshot, 3 close, 4 gc, 5 delete-some + snapshot + retire all + gc
	W    int
	Item []byte
	Sel  int
}

func (w *World) drawScript(t *rapid.T, n int) []SOp {
	ops := make([]SOp, n)
	for i := range ops {
		k := []int{0, 0, 0, 1, 1, 1, 2, 3, 3, 4, 5, 5}[rapid.IntRange(0, 11).Draw(t, "sopkind")]
		ops[i] = SOp{Kind: k, W: rapid.IntRange(0, len(w.ws)-1).Draw(t, "sopw"), Sel: rapid.IntRange(0, 1000).Draw(t, "sopsel")}
		if k == 0 {
			ops[i].Item = w.genItem(t, false)
		}
	}
	return ops
}

// runScript executes pre-drawn steps against the world (model updated, results checked).
func (w *World) runScript(ops []SOp) {
	for _, o := range ops {
		switch o.Kind {
		case 0:
			w.Put(o.W, o.Item)
		case 1:
			keys := w.sortedKeys()
			if len(keys) == 0 {
				continue
			}
			w.Delete(o.W, w.probeFor([]byte(keys[o.Sel%len(keys)])))
		case 2:
			if len(w.OpenSnaps()) < 8 {
				w.NewSnapshot()
			}
		case 3:
			c := w.ClosableSnaps()
			if len(c) == 0 {
				continue
			}
			w.Close(c[o.Sel%len(c)])
		case 4:
			w.GC()
		case 5:
			// delete up to Sel%8+1 live keys, seal the epoch, retire every closable snapshot, collect
			keys := w.sortedKeys()
			n := o.Sel%8 + 1
			for j := 0; j < n && len(keys) > 0; j++ {
				k := keys[(o.Sel/8+j*7)%len(keys)]
				if w.live[k] != nil {
					w.Delete(o.W, w.probeFor([]byte(k)))
				}
			}
			if len(w.OpenSnaps()) < 8 {
				w.NewSnapshot()
			}
			for _, c := range w.ClosableSnaps() {
				for w.snaps[c].refs-w.pinned[c] > 0 {
					w.Close(c)
				}
			}
			w.GC()
		}
	}
}

// Store backs up snapshot i (the harness opens the reference StoreToDisk consumes).
// mutateAt/script: after the mutateAt-th item callback the script is run from inside the callback.
func (w *World) Store(i int, dir string, conc int, mutateAt int, script []SOp) error {
	return w.Store2(i, dir, conc, mutateAt, script, false)
}

// Store2 with consume=true hands one of the harness's own references to StoreToDisk (no extra Open):
// in delta mode the snapshot may then be retired and collected while the backup is still running.
func (w *World) Store2(i int, dir string, conc int, mutateAt int, script []SOp, consume bool) error {
	w.op()
	s := w.snaps[i]
	if w.pinned == nil {
		w.pinned = map[int]int{}
	}
	if !consume {
		if !s.snap.Open() {
			w.Failf("open-result", "Open of snapshot s%d with %d references failed", i, s.refs)
		}
		s.refs++
	}
	w.logf("store(s%d,conc=%d,mutate@%d,%d ops,consume=%v)", i, conc, mutateAt, len(script), consume)
	// model: the reference given to StoreToDisk is released early in delta mode, at the end otherwise
	releaseModel := func() {
		s.refs--
		if s.refs == 0 {
			before := w.gcFrontier()
			w.retired[s.sn] = true
			w.noteFrontierAdvance(before)
		}
	}
	if w.cfg.Delta {
		releaseModel()
	} else {
		w.pinned[i]++
	}
	var mu sync.Mutex
	var count int
	var deferred *deferredFailure
	cb := func(e *nitro.ItemEntry) {
		mu.Lock()
		defer mu.Unlock()
		count++
		if count == mutateAt && deferred == nil {
			func() {
				defer func() {
					if r := recover(); r != nil {
						if d, ok := r.(*deferredFailure); ok {
							deferred = d
							return
						}
						deferred = &deferredFailure{sig: "panic-in-callback", msg: fmt.Sprint(r)}
					}
				}()
				w.inCallback = true
				defer func() { w.inCallback = false }()
				w.runScript(script)
			}()
		}
	}
	type res struct {
		err error
		pnc any
	}
	ch := make(chan res, 1)
	// mutateAt < 0: the script runs in its own goroutine, free-running against the backup (no hand-over point)
	freeDone := make(chan struct{})
	if mutateAt < 0 && len(script) > 0 {
		go func() {
			defer close(freeDone)
			defer func() {
				if r := recover(); r != nil {
					mu.Lock()
					defer mu.Unlock()
					if d, ok := r.(*deferredFailure); ok {
						deferred = d
						return
					}
					deferred = &deferredFailure{sig: "panic-in-mutator", msg: fmt.Sprint(r)}
				}
			}()
			w.inCallback = true
			w.freeRunning = true
			defer func() { w.inCallback = false; w.freeRunning = false }()
			w.runScript(script)
			w.flag("mutated-during-backup")
		}()
	} else {
		close(freeDone)
	}
	go func() {
		var r res
		defer func() {
			if p := recover(); p != nil {
				r.pnc = p
			}
			ch <- r
		}()
		r.err = w.db.StoreToDisk(dir, s.snap, conc, cb)
	}()
	var r res
	select {
	case r = <-ch:
	case <-time.After(waitLimit() * 2):
		w.Failf("store-hang", "StoreToDisk did not return within the watchdog")
	}
	<-freeDone
	if !w.cfg.Delta {
		w.pinned[i]--
		releaseModel()
	}
	if deferred == nil && r.pnc == nil {
		w.settle()
	}
	if deferred != nil {
		if deferred.sig == "__skip__" {
			w.t.Skipf("%s", deferred.msg)
		}
		w.Failf(deferred.sig, "%s", deferred.msg)
	}
	if r.pnc != nil {
		w.Failf("store-panic", "StoreToDisk panicked: %v", r.pnc)
	}
	if mutateAt > 0 && count >= mutateAt {
		w.flag("mutated-during-backup")
	}
	return r.err
}

// LoadWorld restores a backup into a fresh instance of the same configuration and
// returns a world whose model is initialised from what the restore reported.
func LoadWorld(t TB, cfg Cfg, dir string, conc int, writersBefore bool, st *ev.Stats, parent *World) (*World, error) {
	w := &World{t: t, cfg: cfg, st: st, currSn: 1, live: map[string]*version{}, retired: map[uint32]bool{},
		flags: map[string]bool{}, firstSn: 1, known: Known()}
	if parent != nil {
		w.log = append(w.log, parent.log...)
	}
	if cfg.MM {
		w.arena = guard.Get(cfg.GuardMode)
		w.ownArena = true
	}
	w.db = nitro.NewWithConfig(newConfig(cfg, w.arena))
	if writersBefore {
		for i := 0; i < cfg.NWriters; i++ {
			w.ws = append(w.ws, w.db.NewWriter())
		}
	}
	w.baseMem = w.db.MemoryInUse()
	var mu sync.Mutex
	nodes := map[string]*skiplist.Node{}
	dup := false
	cb := func(e *nitro.ItemEntry) {
		mu.Lock()
		defer mu.Unlock()
		b := string(e.Item().Bytes())
		if _, ok := nodes[b]; ok {
			dup = true
		}
		nodes[b] = e.Node()
	}
	type res struct {
		snap *nitro.Snapshot
		err  error
		pnc  any
	}
	ch := make(chan res, 1)
	go func() {
		var r res
		defer func() {
			if p := recover(); p != nil {
				r.pnc = fmt.Sprint(p)
			}
			ch <- r
		}()
		r.snap, r.err = w.db.LoadFromDisk(dir, conc, cb)
	}()
	var r res
	select {
	case r = <-ch:
	case <-time.After(waitLimit() * 2):
		w.closed = true // cannot be shut down
		if w.arena != nil {
			w.arena.Abandon()
		}
		w.Failf("load-hang", "LoadFromDisk did not return within the watchdog")
	}
	w.logf("load(conc=%d,writersBefore=%v)=%v", conc, writersBefore, r.err)
	if r.pnc != nil {
		w.Failf("load-panic", "LoadFromDisk panicked: %v", r.pnc)
	}
	if r.err != nil {
		return w, r.err
	}
	if dup {
		w.Failf("load-duplicate-callback", "LoadFromDisk reported the same item twice through the callback")
	}
	if !writersBefore {
		for i := 0; i < cfg.NWriters; i++ {
			w.ws = append(w.ws, w.db.NewWriter())
		}
	}
	sn, _ := nitro.VerifSnapshotSn(r.snap)
	if sn != 1 {
		w.Failf("snapshot-number", "restored snapshot has number %d", sn)
	}
	for b, n := range nodes {
		v := &version{key: cfg.keyOf([]byte(b)), bytes: b, born: 0, node: n}
		if n == nil {
			w.Failf("load-nil-node", "restore callback delivered a nil node for %q", b)
		}
		w.live[v.key] = v
		w.phys = append(w.phys, v)
	}
	rec := &snapRec{snap: r.snap, sn: 1, content: w.sortedLive(), refs: 1}
	w.snaps = append(w.snaps, rec)
	w.currSn = 2
	return w, nil
}
