package nitrocheck

import (
	"bytes"
	"encoding/binary"
	"fmt"
	"hash/crc32"
	"os"
	"path/filepath"
	"strings"
	"testing"

	"github.com/couchbase/nitro"
	"pgregory.net/rapid"

	"verif/lib/ev"
	"verif/lib/sched"
)

// genBlob draws item bytes biased to framing look-alikes.
func genBlob(t *rapid.T, min int) []byte {
	var n int
	switch c := rapid.IntRange(0, 19).Draw(t, "lenclass"); {
	case c < 12:
		n = rapid.IntRange(min, 40).Draw(t, "len")
	case c < 15:
		n = rapid.IntRange(41, 600).Draw(t, "len")
	case c < 17:
		n = []int{65535, 65536, 65537, 255, 256, 257}[rapid.IntRange(0, 5).Draw(t, "spike")]
	case c < 19:
		n = rapid.IntRange(601, 70000).Draw(t, "len")
	default:
		n = rapid.IntRange(70000, 200000).Draw(t, "len")
	}
	if n < min {
		n = min
	}
	b := make([]byte, n)
	switch rapid.IntRange(0, 4).Draw(t, "content") {
	case 0: // zeros
	case 1: // length look-alikes 00 00 00 nn
		for i := 3; i < n; i += 4 {
			b[i] = byte(rapid.IntRange(0, 9).Draw(t, "nn"))
		}
	case 2:
		for i := range b {
			b[i] = 0xff
		}
	case 3:
		seed := rapid.IntRange(0, 255).Draw(t, "seed")
		for i := range b {
			b[i] = byte(seed + i*7)
		}
	default:
		if n <= 64 {
			for i := range b {
				b[i] = byte(rapid.IntRange(0, 255).Draw(t, "byte"))
			}
		} else {
			seed := rapid.IntRange(0, 1<<30).Draw(t, "seed")
			x := uint32(seed)*2654435761 + 1
			for i := range b {
				x = x*1664525 + 1013904223
				b[i] = byte(x >> 24)
			}
		}
	}
	return b
}

func refChecksum(items [][]byte, lenBytes int) uint32 {
	var sum uint32
	for _, it := range items {
		var hdr [4]byte
		if lenBytes == 4 {
			binary.BigEndian.PutUint32(hdr[:], uint32(len(it)))
		} else {
			binary.BigEndian.PutUint16(hdr[:2], uint16(len(it)))
		}
		sum ^= crc32.ChecksumIEEE(hdr[:lenBytes]) ^ crc32.ChecksumIEEE(it)
	}
	return sum
}

func blobDesc(items [][]byte) string {
	s := ""
	for i, it := range items {
		if i > 0 {
			s += ","
		}
		if len(it) <= 12 {
			s += fmt.Sprintf("%x", it)
		} else {
			s += fmt.Sprintf("%x…(%d)", it[:8], len(it))
		}
	}
	return s
}

// C19: item encoding, file framing and checksums round-trip.
func TestC19(t *testing.T) {
	st := ev.Get("C19", "TestC19")
	db := nitro.New()
	defer db.Close()
	fail := func(t *rapid.T, sig, desc, format string, args ...any) {
		msg := fmt.Sprintf(format, args...)
		processFailed = true
		st.Fail(sig, msg+"\nCASE: "+desc)
		t.Fatalf("FAIL[%s] %s\nCASE: %s", sig, msg, desc)
	}
	rapid.Check(t, func(t *rapid.T) {
		sched.SeedRand(t)
		n := rapid.IntRange(0, 12).Draw(t, "nitems")
		items := make([][]byte, n)
		big, zeros := false, false
		for i := range items {
			items[i] = genBlob(t, 1)
			if len(items[i]) >= 65536 {
				big = true
			}
			if bytes.Count(items[i], []byte{0}) >= 4 {
				zeros = true
			}
		}
		bs := []int{512 * 1024, 64, 16, 5, 4096}[rapid.IntRange(0, 4).Draw(t, "blocksize")]
		total := 0
		for _, it := range items {
			total += len(it)
		}
		if total > 4000 && bs < 4096 {
			bs = 4096 // tiny blocks on large items only multiply syscalls
		}
		nitro.DiskBlockSize = bs
		defer func() { nitro.DiskBlockSize = 512 * 1024 }()
		desc := fmt.Sprintf("blocksize=%d items=[%s]", bs, blobDesc(items))
		dir := ScratchDir()
		defer os.RemoveAll(dir)

		// (a) real writer -> file -> real reader (current format). The path may already hold an
		// older backup file (a second backup into the same directory): drawn shorter or longer.
		path := filepath.Join(dir, "f1")
		if pre := rapid.IntRange(0, 3).Draw(t, "preexisting"); pre > 0 {
			ow := db.VerifNewFileWriter()
			if err := ow.Open(path); err != nil {
				t.Fatalf("open: %v", err)
			}
			nOld := []int{0, 1, 3, 30}[pre]
			for i := 0; i < nOld; i++ {
				ow.WriteItem(db.VerifNewItem([]byte(fmt.Sprintf("old-item-%d-%s", i, strings.Repeat("x", i*7%40)))))
			}
			ow.Close()
			desc += fmt.Sprintf(" preexisting=%d", nOld)
		}
		fw := db.VerifNewFileWriter()
		if err := fw.Open(path); err != nil {
			t.Fatalf("open: %v", err)
		}
		for _, it := range items {
			if err := fw.WriteItem(db.VerifNewItem(it)); err != nil {
				fail(t, "writer-error", desc, "WriteItem: %v", err)
			}
		}
		wsum := fw.Checksum()
		if err := fw.Close(); err != nil {
			fail(t, "writer-error", desc, "Close: %v", err)
		}
		readAll := func(ver int, path string) ([][]byte, uint32) {
			fr := db.VerifNewFileReader(ver)
			if err := fr.Open(path); err != nil {
				t.Fatalf("open: %v", err)
			}
			defer fr.Close()
			var got [][]byte
			for {
				itm, err := fr.ReadItem()
				if err != nil {
					fail(t, "reader-error", desc, "ReadItem (format v%d) after %d items: %v", ver, len(got), err)
				}
				if itm == nil {
					break
				}
				got = append(got, append([]byte(nil), itm.Bytes()...))
				if len(got) > len(items)+2 {
					fail(t, "reader-overrun", desc, "reader (format v%d) returned more items than were written", ver)
				}
			}
			// end of stream is sticky: the stream is exhausted or returns terminators/EOF, never an item
			return got, fr.Checksum()
		}
		eq := func(got [][]byte) int {
			if len(got) != len(items) {
				return -2
			}
			for i := range got {
				if !bytes.Equal(got[i], items[i]) {
					return i
				}
			}
			return -1
		}
		got, rsum := readAll(1, path)
		if i := eq(got); i != -1 {
			fail(t, "framing-roundtrip", desc, "file written by the writer reads back differently (first difference at item %d; %d items read, %d written)", i, len(got), len(items))
		}
		if rsum != wsum {
			fail(t, "checksum-mismatch", desc, "reader checksum %#x != writer checksum %#x", rsum, wsum)
		}
		if ref := refChecksum(items, 4); ref != wsum {
			fail(t, "checksum-formula", desc, "writer checksum %#x != XOR of CRC32(length prefix)^CRC32(data) = %#x", wsum, ref)
		}

		// (b) older format: 2-byte big-endian length prefix, framed by the harness
		small := true
		for _, it := range items {
			if len(it) > 65535 {
				small = false
			}
		}
		if small {
			var buf bytes.Buffer
			for _, it := range items {
				var hdr [2]byte
				binary.BigEndian.PutUint16(hdr[:], uint16(len(it)))
				buf.Write(hdr[:])
				buf.Write(it)
			}
			buf.Write([]byte{0, 0})
			p0 := filepath.Join(dir, "f0")
			os.WriteFile(p0, buf.Bytes(), 0644)
			got0, sum0 := readAll(0, p0)
			if i := eq(got0); i != -1 {
				fail(t, "framing-v0", desc, "file in the older format reads back differently (first difference at item %d; %d items read)", i, len(got0))
			}
			if ref := refChecksum(items, 2); ref != sum0 {
				fail(t, "checksum-v0", desc, "reader checksum for the older format %#x != %#x", sum0, ref)
			}
		}

		// (c) EncodeItem / DecodeItem through a buffer
		var buf bytes.Buffer
		scratch := make([]byte, 4)
		var encSum uint32
		for _, it := range items {
			cs, err := db.EncodeItem(db.VerifNewItem(it), scratch, &buf)
			if err != nil {
				fail(t, "encode-error", desc, "EncodeItem: %v", err)
			}
			encSum ^= cs
		}
		enc := append([]byte(nil), buf.Bytes()...)
		var decSum uint32
		for i, it := range items {
			itm, cs, err := db.DecodeItem(1, scratch, &buf)
			if err != nil || itm == nil {
				fail(t, "decode-error", desc, "DecodeItem #%d: item=%v err=%v", i, itm != nil, err)
			}
			if !bytes.Equal(itm.Bytes(), it) {
				fail(t, "encode-roundtrip", desc, "DecodeItem #%d returned different bytes", i)
			}
			decSum ^= cs
		}
		if buf.Len() != 0 {
			fail(t, "decode-underrun", desc, "%d encoded bytes left after decoding every item", buf.Len())
		}
		if encSum != decSum || encSum != refChecksum(items, 4) {
			fail(t, "checksum-mismatch", desc, "EncodeItem checksum %#x, DecodeItem checksum %#x, reference %#x", encSum, decSum, refChecksum(items, 4))
		}
		// the encoding is exactly [4-byte big-endian length][bytes]
		var ref bytes.Buffer
		for _, it := range items {
			var hdr [4]byte
			binary.BigEndian.PutUint32(hdr[:], uint32(len(it)))
			ref.Write(hdr[:])
			ref.Write(it)
		}
		if !bytes.Equal(enc, ref.Bytes()) {
			fail(t, "encode-layout", desc, "EncodeItem output differs from [4-byte BE length][bytes]")
		}
		st.Case(desc, n >= 2 || big || zeros)
	})
}

// C19 (KV): KVToBytes/KVFromBytes invert each other; CompareKV orders by key.
func makePropC19KV(test string) func(t *rapid.T) {
	st := ev.Get("C19", test)
	return func(t *rapid.T) {
		sched.SeedRand(t)
		genK := func(label string) []byte {
			switch rapid.IntRange(0, 9).Draw(t, label+"class") {
			case 0:
				b := genBlob(t, 0)
				if len(b) > 65535 {
					b = b[:65535]
				}
				return b
			case 1:
				n := []int{0, 255, 256, 257, 65535}[rapid.IntRange(0, 4).Draw(t, label+"spike")]
				b := make([]byte, n)
				for i := range b {
					b[i] = byte(i)
				}
				return b
			default:
				n := rapid.IntRange(0, 4).Draw(t, label+"len")
				b := make([]byte, n)
				for i := range b {
					b[i] = []byte{0, 1, 'a', 'b', 0xff}[rapid.IntRange(0, 4).Draw(t, label+"sym")]
				}
				return b
			}
		}
		k1, k2 := genK("k1"), genK("k2")
		if len(k1) > 65535 {
			k1 = k1[:65535]
		}
		if len(k2) > 65535 {
			k2 = k2[:65535]
		}
		if rapid.IntRange(0, 4).Draw(t, "samekey") == 0 {
			k2 = append([]byte(nil), k1...)
		}
		v1, v2 := genBlob(t, 0), genBlob(t, 0)
		if len(v1) > 300 {
			v1 = v1[:300]
		}
		desc := fmt.Sprintf("k1=%s v1=%s k2=%s v2=%s", blobDesc([][]byte{k1}), blobDesc([][]byte{v1}), blobDesc([][]byte{k2}), blobDesc([][]byte{v2}))
		fail := func(sig, format string, args ...any) {
			msg := fmt.Sprintf(format, args...)
			st.Fail(sig, msg+"\nCASE: "+desc)
			t.Fatalf("FAIL[%s] %s\nCASE: %s", sig, msg, desc)
		}
		e1, e2 := nitro.KVToBytes(k1, v1), nitro.KVToBytes(k2, v2)
		gk, gv := nitro.KVFromBytes(e1)
		if !bytes.Equal(gk, k1) || !bytes.Equal(gv, v1) {
			fail("kv-roundtrip", "KVFromBytes(KVToBytes(k,v)) = (%x…,%d bytes), want (%x…,%d bytes)", gk[:min(8, len(gk))], len(gv), k1[:min(8, len(k1))], len(v1))
		}
		sign := func(x int) int {
			if x < 0 {
				return -1
			}
			if x > 0 {
				return 1
			}
			return 0
		}
		if got, want := sign(nitro.CompareKV(e1, e2)), sign(bytes.Compare(k1, k2)); got != want {
			fail("kv-compare", "CompareKV orders the pairs %d, bytes.Compare orders their keys %d", got, want)
		}
		if got, want := sign(nitro.CompareKV(e2, e1)), sign(bytes.Compare(k2, k1)); got != want {
			fail("kv-compare", "CompareKV orders the pairs %d, bytes.Compare orders their keys %d (swapped)", got, want)
		}
		st.Case(desc, len(k1) > 0 && len(k2) > 0 && (len(k1) != len(k2) || bytes.Equal(k1, k2) || len(k1) >= 256))
	}
}

func TestC19KV(t *testing.T) {
	rapid.Check(t, makePropC19KV("TestC19KV"))
}

// FuzzC19KV drives the KV property with coverage-guided native fuzzing (thorough tier).
func FuzzC19KV(f *testing.F) {
	f.Fuzz(rapid.MakeFuzz(makePropC19KV("FuzzC19KV")))
}

// FuzzC19Decode: DecodeItem on arbitrary bytes never panics, and re-encoding what it
// decoded reproduces exactly the consumed prefix (both format versions).
func FuzzC19Decode(f *testing.F) {
	st := ev.Get("C19", "FuzzC19Decode")
	db := nitro.New()
	f.Add([]byte{0, 0, 0, 3, 'a', 'b', 'c', 0, 0, 0, 0}, true)
	f.Add([]byte{0, 2, 'x', 'y', 0, 0}, false)
	f.Add([]byte{0xff, 0xff, 0xff, 0xff, 1}, true)
	f.Fuzz(func(t *testing.T, data []byte, v1 bool) {
		if len(data) > 1<<16 {
			return
		}
		ver := 0
		if v1 {
			ver = 1
			// a 4-byte length prefix may ask for gigabytes: keep the first length small
			if len(data) >= 4 && (data[0] != 0 || data[1] > 1) {
				return
			}
		}
		r := bytes.NewReader(data)
		scratch := make([]byte, 4)
		consumed := 0
		var re bytes.Buffer
		n := 0
		for {
			before := r.Len()
			if v1 && before >= 4 {
				rest := data[len(data)-before:]
				if rest[0] != 0 || rest[1] > 1 {
					break
				}
			}
			itm, _, err := db.DecodeItem(ver, scratch, r)
			if err != nil || itm == nil {
				break
			}
			n++
			consumed += before - r.Len()
			if v1 {
				if _, err := db.EncodeItem(itm, scratch, &re); err != nil {
					t.Fatalf("EncodeItem of a decoded item failed: %v", err)
				}
			} else {
				var hdr [2]byte
				binary.BigEndian.PutUint16(hdr[:], uint16(len(itm.Bytes())))
				re.Write(hdr[:])
				re.Write(itm.Bytes())
			}
		}
		if !bytes.Equal(re.Bytes(), data[:consumed]) {
			st.Fail("decode-reencode", fmt.Sprintf("re-encoding %d decoded items does not reproduce the consumed prefix of %x", n, data))
			t.Fatalf("FAIL[decode-reencode] re-encoding %d decoded items does not reproduce the consumed prefix of %x (format v%d)", n, data, ver)
		}
		st.Case(fmt.Sprintf("%x/%v", data, v1), n >= 1)
	})
}
