package nitrocheck

import (
	"testing"

	"pgregory.net/rapid"

	"verif/lib/ev"
	"verif/lib/guard"
	"verif/lib/sched"
)

// C07: with user-managed memory every block is released exactly once by Close.
func TestC07(t *testing.T) {
	rapid.Check(t, seqUserMemoryProp(ev.Get("C07", "TestC07"), false))
}

// C04 on sequential histories: the same engine with the allocator always in trap mode (every access
// to a returned block faults at once, every bad free is recorded), including histories in which the
// application keeps nodes in a NodeList. Judged: no fault, no bad free, nothing unlinked left unfreed
// at idle, allocator empty after Close.
func TestC04Seq(t *testing.T) {
	rapid.Check(t, seqUserMemoryProp(ev.Get("C04", "TestC04Seq"), true))
}

func seqUserMemoryProp(st *ev.Stats, alwaysTrap bool) func(t *rapid.T) {
	return func(t *rapid.T) {
		sched.SeedRand(t)
		cfg := genCfg(t, 1, true)
		if !alwaysTrap && rapid.IntRange(0, 2).Draw(t, "trap") > 0 {
			cfg.GuardMode = guard.Quarantine
		}
		w := NewWorld(t, cfg, st)
		w.Strict = !alwaysTrap // C04 does not judge collection progress, C07 does (everything must be gone by Close)
		defer w.Teardown()
		cycles := 0
		restoredChecked := false
		acts := w.seqActions()
		acts["put2"] = acts["put"]
		acts["put3"] = acts["put"]
		acts["delete_b"] = acts["delete"]
		acts["snapshot_b"] = acts["snapshot"]
		acts["close_b"] = acts["close"]
		acts["bulkput"] = w.bulkPut
		acts["bulkdelete"] = w.bulkDelete
		acts["reput"] = func(t *rapid.T) { // rejected Put of a live key
			keys := w.sortedKeys()
			if len(keys) == 0 {
				t.Skip("nothing live")
			}
			k := keys[rapid.IntRange(0, len(keys)-1).Draw(t, "liveidx")]
			w.Put(w.drawWriter(t), w.probeFor([]byte(k)))
		}
		acts["backup"] = func(t *rapid.T) {
			if cycles >= 2 || len(w.OpenSnaps()) == 0 {
				t.Skip("no backup")
			}
			cycles++
			w.storeLoadCycle(t, st, true)
			restoredChecked = true
		}
		acts["scan"] = func(t *rapid.T) {
			// iterators that renew their accessor token while scanning (refresh rate 1-3) and explicit visits
			i := w.drawOpenSnap(t)
			if rapid.IntRange(0, 3).Draw(t, "visit") == 0 {
				parts, err, timedOut := w.runVisitor(i, rapid.IntRange(1, 6).Draw(t, "shards"), rapid.IntRange(1, 3).Draw(t, "conc"), nil)
				if timedOut || err != nil || !equalSeq(ConcatShards(parts), w.snaps[i].content) {
					w.Failf("visitor-content", "Visitor on s%d: timedOut=%v err=%v", i, timedOut, err)
				}
				return
			}
			w.CheckSnap(i, rapid.IntRange(1, 3).Draw(t, "scanrate"), "snapshot-isolation")
			w.flag("scan-with-refresh")
		}
		acts["scan_b"] = acts["scan"]
		acts["backup_old"] = func(t *rapid.T) {
			if cycles >= 2 {
				t.Skip("no backup")
			}
			cycles++
			w.oldSnapshotBackup(t, st, true)
			restoredChecked = true
		}
		acts[""] = func(t *rapid.T) {
			if n := w.arena.BadCount(); n > 0 {
				w.Failf("bad-free", "allocator recorded a bad free: %v", w.arena.Report())
			}
			w.IdleCheck()
		}
		t.Repeat(acts)
		rep := w.Shutdown()
		if !rep.Clean() {
			sig := "alloc-leak"
			if len(rep.Bad) > 0 {
				sig = "bad-free"
			} else if len(rep.StaleWrites) > 0 {
				sig = "stale-write"
			}
			w.Failf(sig, "allocator report after Close (all snapshots and iterators closed): %v", rep)
		}
		nontrivial := w.flags["rejected-put"] || w.flags["same-epoch-delete"] || w.flags["collected-cross-epoch-version"] || restoredChecked
		var classes []string
		for f := range w.flags {
			classes = append(classes, f)
		}
		if restoredChecked {
			classes = append(classes, "restored-instance-closed")
		}
		if cfg.Delta {
			classes = append(classes, "cfg-delta")
		}
		st.Case(w.Desc(), nontrivial, classes...)
		st.AddExtra("blocks-allocated", rep.Mallocs)
	}
}
