package nitrocheck

import (
	"fmt"
	"runtime"
	"runtime/debug"
	"sync"
	"sync/atomic"
	"testing"

	"pgregory.net/rapid"

	"verif/lib/ev"
	"verif/lib/sched"
)

// seqActions is the shared action table of the sequential engine. Individual
// checks add their own actions and weights.
func (w *World) seqActions() map[string]func(*rapid.T) {
	acts := map[string]func(*rapid.T){
		"put": func(t *rapid.T) { w.Put(w.drawWriter(t), w.genItem(t, false)) },
		"delete": func(t *rapid.T) {
			if rapid.Bool().Draw(t, "del2") {
				w.Delete2(w.drawWriter(t), w.genProbe(t))
			} else {
				w.Delete(w.drawWriter(t), w.genProbe(t))
			}
		},
		"deletenode": func(t *rapid.T) {
			if len(w.live) == 0 {
				t.Skip("nothing live")
			}
			keys := w.sortedKeys()
			w.DeleteNode(w.drawWriter(t), keys[rapid.IntRange(0, len(keys)-1).Draw(t, "liveidx")])
		},
		"snapshot": func(t *rapid.T) {
			if len(w.OpenSnaps()) >= 8 {
				t.Skip("enough snapshots")
			}
			w.NewSnapshot()
		},
		"open":  func(t *rapid.T) { w.Open(w.drawOpenSnap(t)) },
		"close": func(t *rapid.T) { w.Close(w.drawClosableSnap(t)) },
		"gc":    func(t *rapid.T) { w.GC() },
		"await": func(t *rapid.T) { w.AwaitCollection() },
	}
	return acts
}

// C01: an open snapshot is an immutable point-in-time view (sequential histories).
func TestC01(t *testing.T) {
	st := ev.Get("C01", "TestC01")
	rapid.Check(t, func(t *rapid.T) {
		sched.SeedRand(t)
		cfg := genCfg(t, -1, false)
		w := NewWorld(t, cfg, st)
		defer w.Teardown()
		scans, ntScans := 0, 0
		scanRate := []int{0, 0, 1, 2, 7}[rapid.IntRange(0, 4).Draw(t, "scanrefreshrate")]
		acts := w.seqActions()
		acts["put2"] = acts["put"]
		acts["put3"] = acts["put"]
		acts["delete_b"] = acts["delete"]
		acts["snapshot_b"] = acts["snapshot"]
		acts["close_b"] = acts["close"]
		// delete -> snapshot -> re-insert chain on one key
		acts["chain"] = func(t *rapid.T) {
			if len(w.live) == 0 || len(w.OpenSnaps()) >= 8 {
				t.Skip("no live key")
			}
			keys := w.sortedKeys()
			k := keys[rapid.IntRange(0, len(keys)-1).Draw(t, "liveidx")]
			item := []byte(w.live[k].bytes)
			w.Delete(w.drawWriter(t), item)
			w.NewSnapshot()
			w.Put(w.drawWriter(t), item)
		}
		acts[""] = func(t *rapid.T) {
			for _, i := range w.OpenSnaps() {
				w.CheckSnap(i, scanRate, "snapshot-isolation")
				scans++
				if w.SnapNontrivial(i) {
					ntScans++
				}
			}
		}
		t.Repeat(acts)
		w.AwaitCollection()
		acts[""](t)
		rep := w.Shutdown()
		if cfg.MM && !rep.Clean() {
			w.Failf("alloc-report", "allocator report after Close: %v", rep)
		}
		var classes []string
		for f := range w.flags {
			classes = append(classes, f)
		}
		st.Case(w.Desc(), ntScans > 0, classes...)
		st.AddExtra("scans", int64(scans))
		st.AddExtra("nontrivial-scans", int64(ntScans))
	})
}

// C01 with concurrent readers: reader goroutines keep scanning (and visiting)
// snapshots they hold while the main goroutine mutates, creates and closes other
// snapshots and forces collection. The oracle stays exact because a snapshot's
// content is immutable.
func TestC01Readers(t *testing.T) {
	rapid.Check(t, readersProp(ev.Get("C01", "TestC01Readers"), false))
}

// C10 with concurrent writers and collection during the visit: the same free-running
// harness with every reader using Visitor (drawn shard counts and concurrency).
func TestC10Conc(t *testing.T) {
	rapid.Check(t, readersProp(ev.Get("C10", "TestC10Conc"), true))
}

func readersProp(st *ev.Stats, visitorOnly bool) func(t *rapid.T) {
	return func(t *rapid.T) {
		sched.SeedRand(t)
		cfg := genCfg(t, -1, false)
		w := NewWorld(t, cfg, st)
		defer w.Teardown()
		// phase 1: build a history with a few snapshots
		acts := w.seqActions()
		delete(acts, "await")
		delete(acts, "gc")
		acts["put2"] = acts["put"]
		acts["put3"] = acts["put"]
		acts["snapshot_b"] = acts["snapshot"]
		pre := rapid.IntRange(3, 25).Draw(t, "pre")
		keys := make([]string, 0, len(acts))
		for k := range acts {
			keys = append(keys, k)
		}
		sortStrings(keys)
		step := func(t *rapid.T, label string) {
			for tries := 0; tries < 20; tries++ {
				k := keys[rapid.IntRange(0, len(keys)-1).Draw(t, label)]
				if runSkippable(t, acts[k]) {
					return
				}
			}
		}
		for i := 0; i < pre; i++ {
			step(t, "preact")
		}
		if len(w.OpenSnaps()) == 0 {
			w.NewSnapshot()
		}
		// phase 2: readers
		nr := rapid.IntRange(1, 4).Draw(t, "readers")
		var stop int32
		var wg sync.WaitGroup
		errs := make([]string, nr)
		scans := make([]int64, nr)
		held := make([]int, nr)
		for r := 0; r < nr; r++ {
			i := w.drawOpenSnap(t)
			w.Open(i)
			if w.pinned == nil {
				w.pinned = map[int]int{}
			}
			w.pinned[i]++
			held[r] = i
			rate := []int{0, 1, 3}[rapid.IntRange(0, 2).Draw(t, "rate")]
			useVisitor := visitorOnly || rapid.IntRange(0, 3).Draw(t, "visitor") == 0
			vshards := rapid.IntRange(1, 12).Draw(t, "vshards")
			vconc := rapid.IntRange(1, 4).Draw(t, "vconc")
			rec := w.snaps[i]
			wg.Add(1)
			go func(r int, rec *snapRec) {
				defer wg.Done()
				debug.SetPanicOnFault(true)
				defer func() {
					if p := recover(); p != nil {
						errs[r] = fmt.Sprintf("reader panic: %v\n%s", p, debug.Stack())
					}
				}()
				for n := 0; ; n++ {
					if atomic.LoadInt32(&stop) != 0 && n > 0 {
						return
					}
					var got []string
					if useVisitor && (visitorOnly || n%2 == 1) {
						parts, err := VisitShards(w.db, rec.snap, vshards, vconc, nil)
						if err != nil {
							errs[r] = "visitor error " + err.Error()
							return
						}
						got = ConcatShards(parts)
					} else {
						got, _ = w.ScanSnap(rec.snap, rate)
					}
					if !equalSeq(got, rec.content) {
						errs[r] = fmt.Sprintf("concurrent scan #%d of snapshot sn=%d (refresh %d, visitor=%v) differs\n%s", n, rec.sn, rate, useVisitor && (visitorOnly || n%2 == 1), diffSeq(got, rec.content))
						return
					}
					atomic.AddInt64(&scans[r], 1)
					runtime.Gosched()
				}
			}(r, rec)
		}
		acts["gc"] = func(t *rapid.T) { w.GC() }
		acts["await"] = func(t *rapid.T) { w.AwaitCollection() }
		keys = append(keys, "gc", "await", "close", "close")
		sortStrings(keys)
		// main may close any reference except the readers' (they hold their own)
		post := rapid.IntRange(5, 40).Draw(t, "post")
		func() {
			defer func() {
				atomic.StoreInt32(&stop, 1)
				wg.Wait()
			}()
			for i := 0; i < post; i++ {
				step(t, "postact")
			}
		}()
		for r := 0; r < nr; r++ {
			if errs[r] != "" {
				w.Failf("snapshot-isolation-concurrent", "%s", errs[r])
			}
		}
		nt := false
		var total int64
		for r := 0; r < nr; r++ {
			total += scans[r]
			if w.SnapNontrivial(held[r]) {
				nt = true
			}
			w.pinned[held[r]]--
			w.Close(held[r])
		}
		for _, i := range w.OpenSnaps() {
			w.CheckSnap(i, 0, "snapshot-isolation")
		}
		rep := w.Shutdown()
		if cfg.MM && !rep.Clean() {
			w.Failf("alloc-report", "allocator report after Close: %v", rep)
		}
		st.Case(w.Desc()+fmt.Sprintf(" readers=%v", held), nt, fmt.Sprintf("readers-%d", nr))
		st.AddExtra("concurrent-scans", total)
	}
}
