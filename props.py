"""Per-property configuration shared by ./check and tools/gen_manifest.py."""

PROPS = {}


def prop(pid, pkg, tests, rule, level="exploration", **kw):
    d = dict(pkg=pkg, tests=tests, rule=rule, level=level)
    d.update(kw)
    PROPS[pid] = d


prop("C02", "nitrocheck",
     [dict(name="TestC02", quick=2500, thorough=25000, steps=40)],
     rule="rapid state machine: sequences of Put2/Delete/Delete2/DeleteNode/GetNode/NewSnapshot/Open/Close through 1-3 writers "
          "from one goroutine, drawn comparator (bytes / CompareKV with a fresh value per Put), drawn memory mode (Go heap / guard allocator); "
          "every result is compared with a reference set and every snapshot's Count/ItemsCount/scan with the set. "
          "Non-trivial: the sequence contains a rejected Put with different bytes under KV, or a re-insert of a key deleted in an earlier epoch "
          "followed by its delete in the same epoch, or a DeleteNode through a handle from an earlier epoch, or a delete followed by a lookup "
          "of that key through a different writer. Distinct = distinct 64-bit hash of the rendered operation history.",
     technique="model-based stateful property testing (rapid state machine vs reference set)",
     design_ref="DESIGN.md §3 C02",
     level_text="Generated operation histories against an executable reference set; every per-call result and every snapshot is compared. "
                "Exploration, not proof: thousands of shrunk-on-failure histories per run.",
     level_note="Trusts the reference model in harness/nitrocheck/world.go and rapid's generators; single goroutine (concurrency is C03).")

NOT_APPLICABLE = {}

ENGINES = [
    dict(name="nitrocheck", path="/verif/harness/nitrocheck", serves_properties=["C01", "C02", "C05", "C06", "C07", "C09", "C10", "C11", "C12", "C19"],
         kind_free_text="rapid model-based state machine over the public nitro API (sequential engine), fault enumerators for backups"),
    dict(name="slcheck", path="/verif/harness/slcheck", serves_properties=["C13", "C14", "C15", "C16", "C17", "C18"],
         kind_free_text="rapid-generated scripts and schedules over the skiplist package under a token-passing scheduler"),
    dict(name="conccheck", path="/verif/harness/conccheck", serves_properties=["C03", "C04", "C08"],
         kind_free_text="rapid-generated scripts and schedules over nitro writers/snapshots under the token-passing scheduler"),
    dict(name="ntcheck", path="/verif/harness/ntcheck", serves_properties=["C20"],
         kind_free_text="rapid state machine for nodetable and NodeList against map/slice models"),
]

HOOK_COMMITS = ["68a99b4", "f22678a"]
