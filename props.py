"""Per-property configuration shared by ./check and tools/gen_manifest.py."""

PROPS = {}


def prop(pid, pkg, tests, rule, level="exploration", **kw):
    d = dict(pkg=pkg, tests=tests, rule=rule, level=level)
    d.update(kw)
    PROPS[pid] = d


prop("C02", "nitrocheck",
     [dict(name="TestC02", quick=2500, thorough=25000, steps=40)],
     rule="rapid state machine: sequences of Put2/Delete/Delete2/DeleteNode/GetNode/NewSnapshot/Open/Close through 1-3 writers "
          "from one goroutine, drawn comparator (bytes / CompareKV with a fresh value per Put), drawn memory mode (Go heap / guard allocator); "
          "every result is compared with a reference set and every snapshot's Count/ItemsCount/scan with the set. "
          "Non-trivial: the sequence contains a rejected Put with different bytes under KV, or a re-insert of a key deleted in an earlier epoch "
          "followed by its delete in the same epoch, or a DeleteNode through a handle from an earlier epoch, or a delete followed by a lookup "
          "of that key through a different writer. Distinct = distinct 64-bit hash of the rendered operation history.",
     technique="model-based stateful property testing (rapid state machine vs reference set)",
     design_ref="DESIGN.md §3 C02",
     level_text="Generated operation histories against an executable reference set; every per-call result and every snapshot is compared. "
                "Exploration, not proof: thousands of shrunk-on-failure histories per run.",
     level_note="Trusts the reference model in harness/nitrocheck/world.go and rapid's generators; single goroutine (concurrency is C03).")

SEQ_NOTE = ("Trusts the reference model in harness/nitrocheck/world.go (epoch model: versions, visibility, collection frontier) and rapid's generators; "
            "collection is awaited after every retiring Close so that the physical state is a function of the history.")

prop("C01", "nitrocheck",
     [dict(name="TestC01", quick=700, thorough=6000, steps=50),
      dict(name="TestC01Readers", quick=250, thorough=1500, steps=30)],
     rule="rapid state machine over Put/Delete/DeleteNode/NewSnapshot/Open/Close(any order)/GC/await and delete->snapshot->re-insert chains with up to 8 snapshots "
          "held, both comparators and memory modes; after EVERY step every open snapshot is scanned and compared (bytes, order, once each, Count) with the content "
          "frozen in the model at its creation. TestC01Readers adds 1-4 reader goroutines that keep scanning (refresh rate 0/1/3) and visiting snapshots they hold "
          "while the main goroutine mutates, creates/closes other snapshots and forces collection. Non-trivial case: a history in which a non-empty snapshot was "
          "scanned after a key it contains was deleted in a later epoch, or re-inserted later, or another (older or newer) snapshot was retired after its creation, "
          "or a collection pass removed a version since its creation. Distinct = distinct hash of the rendered history (+ reader assignment).",
     technique="model-based stateful property testing (frozen snapshot copies as oracle), plus concurrent reader goroutines",
     design_ref="DESIGN.md §3 C01",
     level_text="Generated histories with many simultaneously open snapshots, each compared in full after every step against an immutable model copy; "
                "concurrent readers sample the Go scheduler (reader/unlink interleavings are owned deterministically under C04/C15).",
     level_note=SEQ_NOTE)

prop("C09", "nitrocheck",
     [dict(name="TestC09", quick=700, thorough=5000, steps=60)],
     rule="rapid state machine: version histories (single and bulk puts/deletes, snapshot churn, GC) interleaved with an iterator program on a drawn open snapshot "
          "(SeekFirst, Seek to present/absent/just-after/below-min/above-max keys, Next x1-4, explicit Refresh, SetRefreshRate 0-5, re-Seek); oracle = index into the "
          "snapshot's frozen sorted content (Valid iff idx<len, Get == content[idx]) after every step. Non-trivial: a refresh opportunity (explicit or automatic) while "
          "positioned on a key that has a physically present version invisible to the snapshot, or a seek to an absent key between two keys with invisible versions. "
          "Distinct = distinct hash of the rendered history.",
     technique="model-based stateful property testing (position index into sorted visible list)",
     design_ref="DESIGN.md §3 C09",
     level_text="Generated iterator programs against an index oracle, under generated version histories that keep invisible older/newer versions physically present.",
     level_note=SEQ_NOTE)

prop("C10", "nitrocheck",
     [dict(name="TestC10", quick=350, thorough=3000, steps=40)],
     rule="rapid state machine: histories with bulk puts/deletes (0-300 items, multi-version, older snapshots held open) and Visitor(snapshot, shards 1-40 or > item count, "
          "concurrency 1-8) with a callback error injected at a drawn (shard,index) in a quarter of the visits; oracle: concatenation of the per-shard callback sequences in "
          "shard order == the snapshot's frozen content; injected error => that error is returned; returns within a 20 s watchdog. Non-trivial: >=2 non-empty shards while "
          "versions invisible to the visited snapshot are physically present (they become pivots), or shards > item count, or an error injected in a non-first shard. "
          "Distinct = distinct hash of the rendered history.",
     technique="model-based stateful property testing (shard concatenation vs frozen content, error injection)",
     design_ref="DESIGN.md §3 C10",
     level_text="Generated snapshots/shard counts/concurrency/error placements against the frozen content; termination observed through a generous watchdog.",
     level_note=SEQ_NOTE + " Shard ids >= the requested shard count are tolerated (the statement does not bound them).")

prop("C05", "nitrocheck",
     [dict(name="TestC05", quick=250, thorough=2500, steps=30)],
     rule="rapid state machine: histories (single/bulk puts and deletes, snapshot churn, GC; drawn comparator, memory mode, delta interleaving, 1-3 writers) with up to 3 "
          "backup cycles each: StoreToDisk of a drawn open snapshot (latest or older; store concurrency 1-8; DiskBlockSize 512K/64/16; optionally a pre-drawn mutation script "
          "of puts/deletes/snapshots/closes/GC executed from inside the ItemCallback after the k-th item), LoadFromDisk into a fresh instance (load concurrency 1/2/4/8/17, "
          "writers created before or after), then: items reported by the restore, scan, Count, ItemsCount and node_count equal the stored snapshot's frozen content; "
          "0-25 further model-checked operations and a snapshot on the restored instance. Non-trivial: stored snapshot non-empty and (another physical version of one of its "
          "keys existed at store time, or >=1 item was restored through delta files, or it was not the latest state). Distinct = distinct hash of the rendered history.",
     technique="model-based stateful property testing with store/load round trip and callback-driven concurrent mutation",
     design_ref="DESIGN.md §3 C05",
     level_text="Round-trip oracle on generated databases and configurations, including mutation and collection during the backup (deterministic hand-over from the item callback).",
     level_note=SEQ_NOTE + " Backups go to tmpfs scratch directories; free-running concurrent mutation during backup is sampled only through the callback hand-over.")

NOT_APPLICABLE = {}

ENGINES = [
    dict(name="nitrocheck", path="/verif/harness/nitrocheck", serves_properties=["C01", "C02", "C05", "C06", "C07", "C09", "C10", "C11", "C12", "C19"],
         kind_free_text="rapid model-based state machine over the public nitro API (sequential engine), fault enumerators for backups"),
    dict(name="slcheck", path="/verif/harness/slcheck", serves_properties=["C13", "C14", "C15", "C16", "C17", "C18"],
         kind_free_text="rapid-generated scripts and schedules over the skiplist package under a token-passing scheduler"),
    dict(name="conccheck", path="/verif/harness/conccheck", serves_properties=["C03", "C04", "C08"],
         kind_free_text="rapid-generated scripts and schedules over nitro writers/snapshots under the token-passing scheduler"),
    dict(name="ntcheck", path="/verif/harness/ntcheck", serves_properties=["C20"],
         kind_free_text="rapid state machine for nodetable and NodeList against map/slice models"),
]

HOOK_COMMITS = ["68a99b4", "f22678a"]
