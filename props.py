"""Per-property configuration shared by ./check and tools/gen_manifest.py."""

PROPS = {}


def prop(pid, pkg, tests, rule, level="exploration", **kw):
    d = dict(pkg=pkg, tests=tests, rule=rule, level=level)
    d.update(kw)
    PROPS[pid] = d


prop("C02", "nitrocheck",
     [dict(name="TestC02", quick=4000, thorough=25000, thorough_shards=4, steps=40)],
     rule="rapid state machine: sequences of Put2/Delete/Delete2/DeleteNode/GetNode/NewSnapshot/Open/Close through 1-3 writers "
          "from one goroutine, drawn comparator (bytes / CompareKV with a fresh value per Put), drawn memory mode (Go heap / guard allocator); "
          "every result is compared with a reference set and every snapshot's Count/ItemsCount/scan with the set. "
          "Non-trivial: the sequence contains a rejected Put with different bytes under KV, or a re-insert of a key deleted in an earlier epoch "
          "followed by its delete in the same epoch, or a DeleteNode through a handle from an earlier epoch, or a delete followed by a lookup "
          "of that key through a different writer. Distinct = distinct 64-bit hash of the rendered operation history.",
     technique="model-based stateful property testing (rapid state machine vs reference set)",
     design_ref="DESIGN.md §3 C02",
     level_text="Generated operation histories against an executable reference set; every per-call result and every snapshot is compared. "
                "Exploration, not proof: thousands of shrunk-on-failure histories per run.",
     level_note="Trusts the reference model in harness/nitrocheck/world.go and rapid's generators; single goroutine (concurrency is C03).")

SEQ_NOTE = ("Trusts the reference model in harness/nitrocheck/world.go (epoch model: versions, visibility, collection frontier) and rapid's generators; "
            "collection is awaited after every retiring Close so that the physical state is a function of the history.")

prop("C01", "nitrocheck",
     [dict(name="TestC01", quick=1500, thorough=6000, thorough_shards=3, steps=50),
      dict(name="TestC01Readers", quick=500, thorough=2000, thorough_shards=2, steps=30),
      dict(name="TestC01Conc", pkg="conccheck", quick=2500, thorough=20000, thorough_shards=4, env={"GOMAXPROCS": "2"})],
     rule="rapid state machine over Put/Delete/DeleteNode/NewSnapshot/Open/Close(any order)/GC/await and delete->snapshot->re-insert chains with up to 8 snapshots "
          "held, both comparators and memory modes; after EVERY step every open snapshot is scanned and compared (bytes, order, once each, Count) with the content "
          "frozen in the model at its creation. TestC01Readers adds 1-4 reader goroutines that keep scanning (refresh rate 0/1/3) and visiting snapshots they hold "
          "while the main goroutine mutates, creates/closes other snapshots and forces collection. Non-trivial case: a history in which a non-empty snapshot was "
          "scanned after a key it contains was deleted in a later epoch, or re-inserted later, or another (older or newer) snapshot was retired after its creation, "
          "or a collection pass removed a version since its creation. Distinct = distinct hash of the rendered history (+ reader assignment). The per-step scans of TestC01 use a "
          "refresh rate drawn per case (0/1/2/7). TestC01Conc (schedule owned by the harness): 1-3 rounds of 2-3 controlled writers (contended puts/deletes of 2-4 keys, "
          "same-epoch and cross-epoch) and 1-2 controlled snapshot readers (refresh rate 0-2) under a drawn schedule; every concurrent scan must equal the held "
          "snapshot's content, every snapshot sealed after a round must have Count() == its scan, rounds must be linearizable; non-trivial there: reader scans ran with "
          "pre-emptions and overlapping writer operations.",
     technique="model-based stateful property testing (frozen snapshot copies as oracle), plus concurrent reader goroutines",
     design_ref="DESIGN.md §3 C01",
     level_text="Generated histories with many simultaneously open snapshots, each compared in full after every step against an immutable model copy; "
                "concurrent readers sample the Go scheduler (reader/unlink interleavings are owned deterministically under C04/C15).",
     level_note=SEQ_NOTE)

prop("C09", "nitrocheck",
     [dict(name="TestC09", quick=1200, thorough=3000, thorough_shards=4, steps=60)],
     rule="rapid state machine: version histories (single and bulk puts/deletes, snapshot churn, GC) interleaved with an iterator program on a drawn open snapshot "
          "(SeekFirst, Seek to present/absent/just-after/below-min/above-max keys, Next x1-4, explicit Refresh, SetRefreshRate 0-5, re-Seek); oracle = index into the "
          "snapshot's frozen sorted content (Valid iff idx<len, Get == content[idx]) after every step. Non-trivial: a refresh opportunity (explicit or automatic) while "
          "positioned on a key that has a physically present version invisible to the snapshot, or a seek to an absent key between two keys with invisible versions. "
          "Distinct = distinct hash of the rendered history.",
     technique="model-based stateful property testing (position index into sorted visible list)",
     design_ref="DESIGN.md §3 C09",
     level_text="Generated iterator programs against an index oracle, under generated version histories that keep invisible older/newer versions physically present.",
     level_note=SEQ_NOTE)

prop("C10", "nitrocheck",
     [dict(name="TestC10", quick=700, thorough=2500, thorough_shards=4, steps=40),
      dict(name="TestC10Conc", quick=300, thorough=1000, thorough_shards=2, steps=30),
      dict(name="TestC10Large", quick=200, thorough=1500, thorough_shards=2)],
     rule="rapid state machine: histories with bulk puts/deletes (0-300 items, multi-version, older snapshots held open) and Visitor(snapshot, shards 1-40 or > item count, "
          "concurrency 1-8) with a callback error injected at a drawn (shard,index) in a quarter of the visits; oracle: concatenation of the per-shard callback sequences in "
          "shard order == the snapshot's frozen content; injected error => that error is returned; returns within a 20 s watchdog. Non-trivial: >=2 non-empty shards while "
          "versions invisible to the visited snapshot are physically present (they become pivots), or shards > item count, or an error injected in a non-first shard. "
          "Distinct = distinct hash of the rendered history. TestC10Conc: 1-4 free-running reader goroutines call Visitor (shards 1-12, concurrency 1-4) in a loop on snapshots "
          "they hold while the main goroutine keeps mutating, creating/closing other snapshots and forcing collection; every visit must concatenate to the snapshot's "
          "content (non-trivial there as for C01: the visited snapshot had later deletes/re-inserts/retirements/collection). "
          "TestC10Large: databases of 10050-14000 items (Visitor refreshes a shard's cursor every 10000 items; pivots come from higher levels), with drawn windows of "
          "later deletes / delete+re-insert / new keys / same-epoch insert+delete and optional dead-earlier versions placed around the position where the cursor refreshes, "
          "drawn snapshot releases and a collection pass, then Visitor(shards 1-7, concurrency 1-3) on every open snapshot; same oracle plus Count(); then, in two thirds "
          "of the cases, a steered visit (1 shard): at 1-4 drawn delivered items (a quarter before, the rest behind the cursor's refresh) the callback deletes the item's key "
          "and puts it again, and a drawn number (1-6) of cursor steps later - placed through the skiplist's getNext yield point on the visiting goroutine, i.e. a complete "
          "writer operation between two atomic steps of the visitor - deletes it again, unlinking the new version under or next to the cursor; the delivered sequence must "
          "still be the snapshot's content and a final snapshot must show the writer's state. Non-trivial there: "
          "some shard delivered more than 10000 items (its cursor was re-created in flight) with such versions around.",
     technique="model-based stateful property testing (shard concatenation vs frozen content, error injection); free-running concurrent visits sampled",
     design_ref="DESIGN.md §3 C10",
     level_text="Generated snapshots/shard counts/concurrency/error placements against the frozen content; termination observed through a generous watchdog.",
     level_note=SEQ_NOTE + " Shard ids passed to the callback must lie in [0, shards).")

prop("C05", "nitrocheck",
     [dict(name="TestC05", quick=500, thorough=2500, thorough_shards=4, steps=30),
      dict(name="TestC05OneCPU", quick=150, thorough=1000, thorough_shards=1, steps=30, wrap=["taskset", "-c", "0"])],
     rule="rapid state machine: histories (single/bulk puts and deletes, snapshot churn, GC; drawn comparator, memory mode, delta interleaving, 1-3 writers) with up to 3 "
          "backup cycles each: StoreToDisk of a drawn open snapshot (latest or older; store concurrency 1-8; DiskBlockSize 512K/64/16; optionally a pre-drawn mutation script "
          "of puts/deletes/snapshots/closes/GC executed from inside the ItemCallback after the k-th item), LoadFromDisk into a fresh instance (load concurrency 1/2/4/8/17, "
          "writers created before or after), then: items reported by the restore, scan, Count, ItemsCount and node_count equal the stored snapshot's frozen content; "
          "0-25 further model-checked operations and a snapshot on the restored instance. Non-trivial: stored snapshot non-empty and (another physical version of one of its "
          "keys existed at store time, or >=1 item was restored through delta files, or it was not the latest state). Distinct = distinct hash of the rendered history. TestC05OneCPU: the same property in a process restricted to one CPU "
          "(taskset -c 0): StoreToDisk partitions into runtime.NumCPU() shards, so only there the single-shard backup path runs.",
     technique="model-based stateful property testing with store/load round trip and callback-driven concurrent mutation",
     design_ref="DESIGN.md §3 C05",
     level_text="Round-trip oracle on generated databases and configurations, including mutation and collection during the backup (deterministic hand-over from the item callback).",
     level_note=SEQ_NOTE + " Backups go to tmpfs scratch directories; free-running concurrent mutation during backup is sampled only through the callback hand-over.")

prop("C06", "nitrocheck",
     [dict(name="TestC06", quick=400, thorough=1500, thorough_shards=4, steps=50),
      dict(name="TestC06Conc", pkg="conccheck", quick=1200, thorough=6000, thorough_shards=4, env={"GOMAXPROCS": "2"})],
     rule="rapid state machine weighted to deletes across epochs (single and bulk), snapshots closed in drawn (non-FIFO) order, GC; strict mode: after every Close "
          "that retires a snapshot and after every GC() the harness waits (bounded) for the collection workers and then requires node_count == the epoch model's "
          "physical count (#live + #versions whose deleting epoch's snapshot chain is not fully closed), soft_deletes == 0, memory_used == the exact byte sum of those "
          "nodes and items, GetLastGCSn() == the model frontier synchronously after GC(); every open snapshot still scans to its content after every step (precision); "
          "finally all snapshots are closed in drawn order, everything is deleted and sealed, and MemoryInUse() must be back at the fresh-instance value. "
          "Non-trivial: a cross-epoch-deleted version was collected while a newer snapshot was still open, or a non-FIFO close order occurred. Distinct = hash of the history. "
          "TestC06Conc (controlled scheduler, user memory in a quarter of the cases): rounds of 2-4 writers with delete-heavy scripts over 2-5 keys born in earlier epochs "
          "(several writers deleting the same key), snapshots, then the references are released by concurrently scheduled closer threads; oracle: per-round linearizability, "
          "each snapshot retired once, after GC() (half of the cases: after the final retiring Close alone, no explicit GC(); coarse schedules and hot-point plans as in C08) "
          "the frontier is the last snapshot and node_count == live items, allocator clean after Close. Non-trivial there: two "
          "deletes of one key overlapped, or >=3 snapshots were released concurrently.",
     technique="model-based stateful property testing (epoch/collection-frontier model vs statistics and memory accounting)",
     design_ref="DESIGN.md §3 C06",
     level_text="Generated histories against an exact physical-version model; completeness is judged only at points where the property promises a pass (retiring Close, GC()).",
     level_note=SEQ_NOTE + " A 20 s bounded wait is the only way to observe 'never collected'; it is reached only when collection is genuinely stuck.")

prop("C07", "nitrocheck",
     [dict(name="TestC07", quick=300, thorough=3000, thorough_shards=4, steps=50),
      dict(name="TestC07Conc", pkg="conccheck", quick=1500, thorough=15000, thorough_shards=4, env={"GOMAXPROCS": "2"})],
     rule="rapid state machine in user-managed-memory mode on a guard allocator (own page run per block, poison, never reused; trap or quarantine mode drawn): puts, rejected "
          "puts of live keys, same-epoch and cross-epoch deletes, bulk operations, snapshots closed in drawn order, GC, up to 2 backup+restore cycles (delta on/off) whose "
          "restored instance runs further operations and is closed; oracle: no bad free at any step; after Close() of each instance (all snapshots/iterators closed) the "
          "allocator's live set is empty, no double/unknown free, no overrun, no write into freed memory. Non-trivial: history contains a rejected Put, a same-epoch delete, "
          "a collected cross-epoch version or a restored instance. Distinct = hash of the history. TestC07Conc (controlled scheduler): 1-3 rounds of 2-4 writers racing "
          "with Put2/Delete/GetNode on 1-3 keys (Puts that lose a race, contended deletes), snapshots, retirement, then Close and the same allocator audit; non-trivial "
          "there: a Put lost a race against an overlapping Put of the same key, or operations on one key overlapped.",
     technique="model-based stateful property testing with a guard allocator as oracle (sequential histories; controlled-scheduler rounds for racing writers)",
     design_ref="DESIGN.md §3 C07",
     level_text="Every generated history ends with Close() and an exact allocator audit (deterministic: Close joins the workers in this mode).",
     level_note=SEQ_NOTE + " Failed restores (LoadFromDisk returning an error) are not judged by this check.")

prop("C18", "slcheck",
     [dict(name="TestC18Builder", quick=5000, thorough=150000, thorough_shards=8),
      dict(name="TestC18Merger", quick=10000, thorough=300000, thorough_shards=8),
      dict(name="FuzzC18Merger", fuzz=60)],
     rule="Builder: 0-8 segments (empty ones anywhere, sizes 0-40, ascending items across the concatenation), filled sequentially or by one goroutine per segment, "
          "assembled; oracle: scan == concatenation, structural walk of every level (C14 predicate) and statistics == walk, Lookup of every value in range, then 0-30 "
          "generated Insert/Delete against a set model, scan/walk/statistics again. Non-trivial builder case: >=2 non-empty segments with an empty one before/between them "
          "and a node of height >=1. Merger: 0-5 lists with drawn overlapping/duplicate/empty contents, program of SeekFirst/Seek(x)/Next/Get with re-positioning before, "
          "during and after a scan; oracle: position index into the sorted multiset union (Valid, Get, Seek's found flag). Non-trivial merger case: a re-seek after >=1 Next. "
          "Distinct = hash of the rendered case.",
     technique="property-based testing with model oracles (concatenation / sorted multiset union) and structural invariant walk",
     design_ref="DESIGN.md §3 C18",
     level_text="Generated segment layouts and merge programs against exact sequence oracles.",
     level_note="Level assignment inside Segment.Add is the library's own PRNG (not drawn); concurrent fill samples the Go scheduler (segments are independent).")

prop("C19", "nitrocheck",
     [dict(name="TestC19", quick=700, thorough=5000, thorough_shards=4),
      dict(name="TestC19KV", quick=2000, thorough=50000, thorough_shards=4),
      dict(name="TestC19Conc", quick=150, thorough=1000, thorough_shards=2),
      dict(name="FuzzC19Decode", fuzz=60),
      dict(name="FuzzC19KV", fuzz=60)],
     rule="Item sequences (0-12 items; lengths biased to 1-40 with spikes at 255/256/257/65535/65536/65537 and up to 200 KiB; contents biased to zero runs, "
          "00 00 00 nn length look-alikes, 0xFF, pseudo-random), DiskBlockSize drawn from 5/16/64/4096/512K: (a) real file writer -> file -> real reader: same sequence "
          "then end-of-stream, reader checksum == writer checksum == independent XOR-of-CRC32 formula; (b) harness-framed older format (2-byte length) -> reader(v0); "
          "(c) EncodeItem/DecodeItem through a buffer, byte layout == [4-byte BE length][bytes]. TestC19KV: keys 0-65535 bytes / arbitrary values: KVFromBytes(KVToBytes) "
          "identity and sign(CompareKV) == sign(bytes.Compare(keys)) in both argument orders. Non-trivial: >=2 items, or an item >= 65536 bytes, or >=4 zero bytes "
          "(KV: both keys non-empty with different lengths, equal keys, or a key >= 256 bytes). Distinct = hash of the rendered input. TestC19Conc: 2-4 file writers "
          "used concurrently from their own goroutines (items of different lengths per writer, 200-3000 items), each file read back and compared, checksums three ways.",
     technique="round-trip and differential (independent checksum / layout) property-based testing",
     design_ref="DESIGN.md §3 C19",
     level_text="Generated inputs with round-trip, layout and independent-checksum oracles through the real file writer/reader (verif accessors).",
     level_note="The harness's own framing of the older format is the trusted reference for (b).")

prop("C20", "ntcheck",
     [dict(name="TestC20Table", quick=10000, thorough=200000, thorough_shards=8, steps=40),
      dict(name="TestC20List", quick=5000, thorough=150000, thorough_shards=8, steps=30),
      dict(name="FuzzC20Table", pkg="ntcheck", fuzz=60)],
     rule="rapid state machines. Table: Update/Get/Remove over keys of 0-3 symbols from {a,b,c}, hash drawn from {constant, len mod 2, first byte mod 3, crc32}; "
          "oracle map[key]pointer for every result, ItemsCount == len, MemoryInUse == 42*len after every step. Non-trivial: a fast-table entry was removed while its "
          "bucket had overflow entries and a key of that bucket was added afterwards. List: Add (new nodes, several with equal key bytes, and re-adding removed nodes), "
          "Remove(key present/absent), Keys and Head compared with a slice model after every step; non-trivial: >=4 operations and a re-add or duplicate keys in the list.",
     technique="model-based stateful property testing (map / slice models)",
     design_ref="DESIGN.md §3 C20",
     level_text="Generated operation sequences against map and slice models, all hash shapes including total collisions.",
     level_note="Pointers are addresses of pinned harness records; the shadow of bucket shapes is used only to classify cases.")

SCHED_NOTE = ("Schedules are owned by the harness: a token-passing scheduler runs exactly one logical thread at a time and switches only at yield points "
              "(verif hooks at every getNext/dcasNext of the skiplist, at every atomic step of the access barrier, and harness callbacks); a pre-emption inside an "
              "uninstrumented instruction sequence and weak-memory reorderings are out of reach. 2-5 threads, scripts of <=6 operations.")
G1 = {"GOMAXPROCS": "1"}

prop("C13", "slcheck",
     [dict(name="TestC13", quick=20000, thorough=60000, thorough_shards=16, env=G1)],
     rule="2-4 controlled threads run drawn scripts (1-5 ops) of Insert2 (drawn height 0-4 via a scripted level function), Delete, DeleteNode on node handles shared "
          "between threads (Go-managed memory) and Lookup over 3-5 keys on a list pre-populated with tall nodes; drawn memory mode (Go heap / guard allocator with a "
          "destructor that frees; there deletes follow the owner protocol lookup+DeleteNode2+FlushSession-on-success under one token); schedule drawn as PCT priorities "
          "with 0-4 change points or as a random walk over the yield points. Oracle: porcupine per key on exact call/return stamps (set semantics, node identity for "
          "DeleteNode and Lookup) including an observation of every key from a scan after quiescence; scan strictly increasing; each node deleted by one caller; "
          "C14 structural walk; no allocator fault/bad free. Non-trivial: >=2 operations of different threads on one key overlapped and the schedule pre-empted a thread "
          "inside an operation. Distinct = hash of (scripts, schedule).",
     technique="generated scripts + generated schedules (PCT / random walk) under a controlled scheduler, porcupine linearizability oracle",
     design_ref="DESIGN.md §3 C13",
     level_text="Schedule-as-input exploration of small concurrent scenarios with a linearizability oracle; every failure is a pure function of the seed and shrinks.",
     level_note=SCHED_NOTE)

prop("C14", "slcheck",
     [dict(name="TestC14", quick=12000, thorough=60000, thorough_shards=8, env=G1),
      dict(name="TestC14Store", pkg="nitrocheck", quick=300, thorough=1500, thorough_shards=3, steps=30)],
     rule="C13's concurrent generator (contended inserts/deletes under generated schedules, both memory modes) followed by a sequential phase, with the structural predicate "
          "run at both quiescent points: per level the unmarked chain head->tail is strictly increasing and acyclic, is a subsequence of the level below, no node above its "
          "height or above the list level, every live node linked at all levels up to its height; statistics (per-height node counts, soft deletes, memory in use, "
          "allocs-frees vs allocator live set) equal what the walk measures. The same predicate also runs inside C13, C15, C18 (builder output) and C04 layer A. "
          "Non-trivial: the concurrent phase contained two overlapping deletes of one key/node. Distinct = hash of (scripts, schedule, sequential phase). "
          "TestC14Store (structures produced by LoadFromDisk): C05's backup/restore histories; every restored store is walked (same predicate, items ordered by key then "
          "version) and its statistics incl. memory are compared with the walk and with the model, right after the restore and after further operations; the builder's "
          "output is walked in C18 (with drawn item-size functions).",
     technique="generated scripts + schedules under a controlled scheduler, structural invariant walk vs statistics",
     design_ref="DESIGN.md §3 C14",
     level_text="Invariant over the reachable structure checked at generated quiescent points.",
     level_note=SCHED_NOTE + " Restored stores are walked in C05 only through public statistics (node_count).")

prop("C15", "slcheck",
     [dict(name="TestC15", quick=15000, thorough=150000, thorough_shards=16, env=G1)],
     rule="Stable even keys (never touched) interleaved with volatile odd keys; one controlled reader (SeekFirst or Seek(x), Next to the end, drawn refresh interval 0-3, "
          "optional Pause/Resume with re-seek) and 1-3 controlled mutators inserting/deleting volatile keys, a third of the operations aimed at the reader's current key, "
          "its predecessor or successor; both memory modes; schedule drawn (PCT / random walk). Oracle: returned sequence never decreases, equal neighbours only with an "
          "overlapping re-insert; every returned key is stable or possibly present at some moment of the scan (from stamped mutator results); every stable key >= the start "
          "is returned exactly once; Seek(x) never lands below x; iterator node live in the allocator; C14 walk at the end. Non-trivial: a successful delete hit the reader's "
          "current key or its predecessor during the scan. Distinct = hash of (setup, scripts, schedule).",
     technique="generated scripts + schedules under a controlled scheduler, stable/volatile set relations as oracle",
     design_ref="DESIGN.md §3 C15",
     level_text="Schedule-as-input exploration with mutators aimed at the cursor; relations stated by the property checked on the stamped history.",
     level_note=SCHED_NOTE)

prop("C16", "slcheck",
     [dict(name="TestC16", quick=20000, thorough=150000, thorough_shards=16, env=G1)],
     rule="2-5 controlled threads with drawn scripts (1-6 ops) of Acquire, Release(any own token), FlushSession(ref_k), including nested holders and flushes while holding; "
          "every barrier hook and every step of the internal queue is a yield point; schedule drawn (PCT / random walk). Oracle on the totally ordered event log: destructor "
          "at most once per flush; flush f returned before flush g was called => destructor(f) before destructor(g); accessor whose Acquire returned before f was called => "
          "destructor(f) after its Release was called; Acquire never returns a session already latched as terminated. Non-trivial: >=1 flush and (an accessor was inside "
          "Acquire/holding across a flush, or a thread was pre-empted inside an operation). Distinct = hash of (scripts, schedule).",
     technique="generated scripts + schedules under a controlled scheduler, event-log order relations as oracle",
     design_ref="DESIGN.md §3 C16",
     level_text="Schedule-as-input exploration over every atomic step of the barrier.",
     level_note=SCHED_NOTE)

prop("C17", "slcheck",
     [dict(name="TestC17", quick=20000, thorough=150000, thorough_shards=8, env=G1),
      dict(name="TestC17Nitro", pkg="nitrocheck", quick=500, thorough=3000, thorough_shards=3, steps=50)],
     rule="Same generator as C16; every script ends with all tokens released. Oracle at quiescence (all threads finished): destructor calls == FlushSession calls, "
          "GetStats freed == allocated-1 and queued == 0; no timer involved. (C04 layer A adds: allocator live set == linked nodes + sentinels at quiescence.) "
          "Non-trivial: >=2 flushes, both queue-insert and try-lock yield points were hit and a thread was pre-empted inside an operation. Distinct = hash of (scripts, schedule). "
          "TestC17Nitro (second sentence of the property, on real instances with user-managed memory): sequential histories with iterator churn (refresh rates, explicit "
          "Refresh, iterators held across deletes and collection), Open/NewIterator on fully released snapshots, same-epoch and cross-epoch deletes; after every step with "
          "no iterator open the collection is awaited and the allocator's live set must be exactly node+item per physical version plus the sentinels; empty after Close. "
          "Non-trivial there: a refresh or a dead-snapshot open happened in a history with a same-epoch delete or a collected version.",
     technique="generated scripts + schedules under a controlled scheduler, quiescence counters as oracle",
     design_ref="DESIGN.md §3 C17",
     level_text="Schedule-as-input exploration; liveness is judged only at true quiescence, which the scheduler knows exactly.",
     level_note=SCHED_NOTE)

prop("C04", "slcheck",
     [dict(name="TestC04A", quick=20000, thorough=80000, thorough_shards=6, env=G1),
      dict(name="TestC04B", pkg="conccheck", quick=3000, thorough=8000, thorough_shards=4, env={"GOMAXPROCS": "2"}),
      dict(name="TestC04Seq", pkg="nitrocheck", quick=300, thorough=1500, thorough_shards=2, steps=50),
      dict(name="TestC04Equal", quick=30000, thorough=100000, thorough_shards=3, env=G1)],
     rule="Layer A (skiplist + access barrier + guard allocator in trap mode, fully controlled): 2-4 threads play writer (Insert2 with drawn heights; delete = lookup + "
          "DeleteNode2 + FlushSession-on-success under one token; 1-3 contended keys), collector (unlink a chained list of nodes, then flush the list) and reader (iterator "
          "with refresh interval 0-3, Seek, Pause/Resume); schedule drawn. Oracle: no access to a freed block (page fault mapped to the block and its alloc/free ops), no "
          "double/unknown free, after every completed operation and at the end every node reachable from head at any level is live, node under an open iterator is live, at "
          "quiescence live blocks == linked nodes + sentinels, C14 walk. Non-trivial: a block was freed while another thread was inside an operation, or an iterator stood "
          "on a node marked deleted. Distinct = hash of (roles, schedule). Layer B (TestC04B: real nitro, user memory on the guard allocator in quarantine mode, free-running "
          "collection and free workers): 1-3 rounds of 2-3 controlled writers (contended puts/deletes, same-epoch and cross-epoch) and 0-2 controlled snapshot readers "
          "(refresh rate 0-2) whose scans must equal the snapshot content; snapshots retired in drawn order between rounds; oracle: no fault, scans exact, linearizable "
          "rounds, no bad free at any point, allocator empty after Close. Non-trivial there: blocks were freed before Close with pre-emptions and overlapping operations "
          "or concurrent reader scans. TestC04Seq: the sequential engine of C07 with the allocator always in trap mode and, in a third of the cases, the "
          "application keeping live nodes in a nitro.NodeList (removed from it before they are deleted): no fault, no bad free, nothing unlinked left unfreed at idle. TestC04Equal: 2-3 controlled threads delete and re-insert (heights 1-4) the same one or two keys, trap mode, "
          "layer A's oracle plus linearizability; concentrates schedules on a marked node meeting its re-inserted twin.",
     technique="generated roles + schedules under a controlled scheduler with a guard allocator (page-fault / live-set oracle)",
     design_ref="DESIGN.md §3 C04",
     level_text="Schedule-as-input exploration with an allocator that turns every stale access into an attributable fault and every bad free into a record.",
     level_note=SCHED_NOTE + " Layer A judges the skiplist/barrier mechanism under a correct client protocol; nitro's own use of it is layer B.")

G2 = {"GOMAXPROCS": "2"}
SEMI_NOTE = ("Harness threads (writers, openers/closers, readers) are scheduled by the token-passing scheduler with yields at every skiplist node step and at the nitro "
             "hooks (Open, Close, DeleteNode, GC); nitro's own collection/free workers run freely and are recognised by goroutine id, so races between a harness thread "
             "and a worker are sampled, not owned (they are owned one level down in C04 layer A / C15).")

prop("C03", "conccheck",
     [dict(name="TestC03", quick=4000, thorough=10000, thorough_shards=12, env=G2)],
     rule="1-3 rounds per case on one instance (drawn comparator bytes/KV; a quarter of the cases on an instance restored from a backup, writers created after the load): 2-4 controlled writer threads (one Writer each) run drawn scripts of 1-4 Put2/Delete/GetNode over "
          "2-3 keys (collisions are the norm; later rounds hit keys born or deleted in earlier epochs; older snapshots drawn open or closed) under a drawn schedule (PCT / "
          "random walk over node-level and DeleteNode yield points); after each round NewSnapshot + scan. Oracle: porcupine per key over exact call/return stamps with the "
          "snapshot content as final observation (KV: values tracked), Count() == scan length, no duplicate keys, untouched keys preserved; finally all snapshots closed, "
          "GC(), statistics collapse to the live items. Non-trivial: a round in which operations of different threads on one key overlapped and a thread was pre-empted "
          "inside an operation. Distinct = hash of (scripts, schedules).",
     technique="generated scripts + schedules under a controlled scheduler, porcupine linearizability oracle",
     design_ref="DESIGN.md §3 C03",
     level_text="Schedule-as-input exploration of contended writer rounds on real instances with a linearizability oracle.",
     level_note=SEMI_NOTE)

prop("C08", "conccheck",
     [dict(name="TestC08", quick=6000, thorough=40000, thorough_shards=12, env=G2)],
     rule="1-3 snapshots with garbage; 2-4 controlled threads each owning 0-2 references per snapshot (one may be an outsider holding only the pointers) run drawn scripts of "
          "Open/Close/NewIterator, then release everything they own (iterators included); yields between the zero test and the increment in Open, after the decrement and at "
          "the retirement in Close, in GC, and at every node step of the snapshot lists. Oracle: porcupine per snapshot on a counter model (Open/NewIterator succeed iff "
          "count > 0); after the run Open fails and NewIterator returns nil on every snapshot; every snapshot was retired exactly once (hook count); after GC() - or, in "
          "half of the cases, after the last retiring Close of the history (run sequentially once every other call has returned; a fresh snapshot is created and "
          "closed if the round released everything itself) and without an explicit GC() - GetSnapshots() is empty, GetLastGCSn() == last snapshot, statistics collapse "
          "to the live items (collector not wedged). Schedules: PCT or random walk; half of the cases coarse (only nitro's own yield points and operation boundaries "
          "are scheduling points); drawn hot-point plans park a thread for 0-30 steps on arrival at Open-tested / Close-retires / GC-before-try-lock / GC-pass-done. Non-trivial: an Open/NewIterator overlapped "
          "a Close of the same snapshot by another thread with a pre-emption. Distinct = hash of (ownership, scripts, schedule).",
     technique="generated scripts + schedules under a controlled scheduler, counter-model linearizability + retirement count + collector progress",
     design_ref="DESIGN.md §3 C08",
     level_text="Schedule-as-input exploration of the Open/Close race window on real instances.",
     level_note=SEMI_NOTE)

prop("C11", "nitrocheck",
     [dict(name="TestC11", quick=1, thorough=1, thorough_shards=6),
      dict(name="TestC11Multi", quick=1500, thorough=6000, thorough_shards=3),
      dict(name="TestC11KnownFinding", quick=1, thorough=1, thorough_shards=1),
      dict(name="FuzzC11", fuzz=120)],
     level="fault_enumeration",
     rule="Each case generates a database (0-20 items quick, up to 150 thorough; key styles: sequential ASCII, pseudo-random hex, zero-led binary that looks like length "
          "prefixes; bytes/KV comparator; delta interleaving on with real delta content produced by deletes+collection during the backup, or off), stores it once, and then "
          "applies faults in place to the real backup directory (undone after each load): for every file (nitro.json, data/files.json, data/checksums.json, every data shard, "
          "delta manifests and shards) removal, truncation to every length and at every byte offset XOR 0x01/0x80/0xFF and set-to-0 (quick: every 8th offset of files > 64 "
          "bytes, drawn phase; thorough: all), load concurrency rotating over 1/2/16/17, plus multi-fault sets damaging >= concurrency shard files at once. Oracle per fault: "
          "LoadFromDisk (in a goroutine with recover) returns an error or a snapshot whose scan and Count equal the stored content; a hang is declared only when the load is "
          "provably blocked (its goroutines parked on channel/WaitGroup operations, nobody reading) after 5 s + 3 s; a load that is still computing (gigabyte allocation "
          "from a damaged length prefix) is waited for, and counted as inconclusive after 10 minutes. Flips of the most significant length-prefix byte to >= 0x40 "
          "(2-4 GiB allocations) are sampled (2 per base quick, 8 thorough), everything else is enumerated. evaluations = faults applied; every applied fault changes bytes "
          "the loader reads, so each is non-trivial; distinct = hash of (base description, fault, concurrency). Each case enumerates one backup without and one with delta "
          "files (delta content forced); manifests get 12 XOR masks per byte (thorough: all 255). TestC11Multi draws and FuzzC11 (thorough, coverage-guided) evolves sets of "
          "up to 6 faults with arbitrary XOR masks on two fixed backups (multi-fault sets keep shard-file faults only: removing an optional manifest is a legacy backup by "
          "design); non-trivial there: >= 2 faults. TestC11KnownFinding replays the listed checksum-collision finding on a hand-built directory. A silent outcome is attributed "
          "to that finding only if the harness's own XOR-of-CRC32 over the damaged shard bytes equals the recorded checksum.",
     technique="fault enumeration over generated backups (byte flips, truncations, removals, multi-fault sets) with an error-or-exact oracle",
     design_ref="DESIGN.md §3 C11",
     level_text="Systematic single-fault enumeration on real backup directories of generated databases plus generated multi-fault sets; exhaustive only for the bases and "
                "fault classes named in the rule.",
     level_note="Process-level crashes inside nitro's own restore goroutines cannot be recovered by the harness: they kill the test process and are reported as a violation "
                "with the log. Only Go-managed memory is used here (a damaged length makes the loader allocate gigabytes).",
     timeout_quick=3600, timeout_thorough=14400)

prop("C12", "nitrocheck",
     [dict(name="TestC12Limit", quick=8, thorough=40, thorough_shards=4),
      dict(name="TestC12Crash", quick=40, thorough=300, thorough_shards=4)],
     level="fault_enumeration",
     rule="Generated databases (0-60 items incl. padded large ones, bytes/KV comparator, delta on/off, DiskBlockSize 512K/64/16, store concurrency 1-4). "
          "(a) TestC12Limit: in-process RLIMIT_FSIZE (SIGXFSZ ignored) set to L around StoreToDisk so that every write growing a file beyond L bytes fails; L enumerated over "
          "0..largest-file-size+1 when that is <= 700 bytes (every byte budget at which some write fails), else 300 drawn limits; oracle: StoreToDisk returns an error, or "
          "returns nil and LoadFromDisk of the directory yields exactly the stored snapshot. Non-trivial: L below the largest file (>=1 write really failed). "
          "(b) TestC12Crash: store concurrency 1; verif yield points after every file-system mutation of StoreToDisk and of the file writer's Close (mkdir, each file opened, "
          "each item written, each manifest written, terminator/flush/close of each file) copy the directory = the image a dying process leaves; for each manifest additionally "
          "the created-but-empty and half-written states; in delta mode deletes+collection run from the item callback so delta files have content; oracle for every image: "
          "LoadFromDisk returns an error or exactly the stored snapshot (hang only if provably blocked). Non-trivial: image differs from its predecessor. "
          "evaluations = limits tried + images loaded; distinct = hash of (database, limit) / (database, image content digest).",
     technique="fault injection by enumeration: failing writes at every byte budget (RLIMIT_FSIZE) and crash images at every file-system mutation boundary",
     design_ref="DESIGN.md §3 C12",
     level_text="Enumerates the byte budgets and the mutation boundaries of real backups of generated databases.",
     level_note="The file size limit fails writes per file (a full disk fails them globally); crash images model process death (data handed to the kernel survives), not power loss. "
                "TestC12Limit changes a process-wide limit and therefore runs alone in its process.",
     timeout_quick=3600)

NOT_APPLICABLE = {}

ENGINES = [
    dict(name="nitrocheck", path="/verif/harness/nitrocheck", serves_properties=["C01", "C02", "C05", "C06", "C07", "C09", "C10", "C11", "C12", "C19"],
         kind_free_text="rapid model-based state machine over the public nitro API (sequential engine), fault enumerators for backups"),
    dict(name="slcheck", path="/verif/harness/slcheck", serves_properties=["C13", "C14", "C15", "C16", "C17", "C18"],
         kind_free_text="rapid-generated scripts and schedules over the skiplist package under a token-passing scheduler"),
    dict(name="conccheck", path="/verif/harness/conccheck", serves_properties=["C03", "C04", "C08"],
         kind_free_text="rapid-generated scripts and schedules over nitro writers/snapshots under the token-passing scheduler"),
    dict(name="ntcheck", path="/verif/harness/ntcheck", serves_properties=["C20"],
         kind_free_text="rapid state machine for nodetable and NodeList against map/slice models"),
]

HOOK_COMMITS = ["68a99b4", "f22678a", "4a2a6f1", "a308b45"]

# serves_properties is derived from the tests above (a property served by several packages appears under each)
for _e in ENGINES:
    _e["serves_properties"] = sorted(pid for pid, p in PROPS.items()
                                     if _e["name"] in set([p["pkg"]] + [t.get("pkg", p["pkg"]) for t in p["tests"]]))
