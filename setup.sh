#!/bin/sh
# Offline pre-build of the harness test binaries (warms the Go build cache).
set -e
cd "$(dirname "$0")/harness"
export GOFLAGS=-mod=mod GOPROXY=off GOSUMDB=off GOTOOLCHAIN=local
mkdir -p ../.build
for pkg in nitrocheck slcheck conccheck ntcheck; do
  if ls $pkg/*_test.go >/dev/null 2>&1; then
    go test -c -tags verif -o ../.build/$pkg.test ./$pkg
  fi
done
echo setup ok
