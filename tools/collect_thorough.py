#!/usr/bin/env python3
"""tools/collect_thorough.py <log> [...]: reads the driver's summary lines ("C01 thorough: N cases, ... S s") from run logs
and writes tools/thorough_times.json, which render_tables.py puts into DESIGN.md §8."""
import json, os, re, sys
ROOT = os.path.dirname(os.path.dirname(os.path.abspath(__file__)))
out = {}
p = ROOT + "/tools/thorough_times.json"
if os.path.exists(p):
    out = json.load(open(p))
for f in sys.argv[1:]:
    for l in open(f, errors="replace"):
        m = re.match(r"^(C\d\d) thorough: (\d+) cases, (\d+) non-trivial \((\d+) distinct\), (\d+) violations, (\d+) known, ([\d.]+)s", l)
        if m:
            out[m.group(1)] = dict(cases=int(m.group(2)), nontrivial=int(m.group(3)), violations=int(m.group(5)), secs=float(m.group(7)))
json.dump(out, open(p, "w"), indent=1, sort_keys=True)
print(out)
