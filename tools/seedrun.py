#!/usr/bin/env python3
"""tools/seedrun.py [--tier quick] [--props C01,C06] <ID><A|B> ... : apply a seeded change to /repo, run the check(s), revert.
Patches come from /verif/seeded/<ID><X>/patch.diff if present, else /tmp/seed/<ID>.out/<X>.rebased.diff or <X>.patch.diff."""
import json, os, subprocess, sys, time
ROOT = "/verif"
SEED_ROOT = os.environ.get("SEED_ROOT", "/tmp/seed")
tier = "quick"
props = None
names = []
for a in sys.argv[1:]:
    if a.startswith("--tier="):
        tier = a.split("=")[1]
    elif a.startswith("--props="):
        props = a.split("=")[1].split(",")
    else:
        names.append(a)
st = subprocess.run(["git", "-C", "/repo", "status", "--porcelain", "--untracked-files=no"], capture_output=True, text=True).stdout
if st.strip():
    print("refusing: /repo has uncommitted changes")
    sys.exit(2)
results = []
for n in names:
    pid, x = n[:-1], n[-1]
    cands = ["/verif/seeded/%s/patch.diff" % n, "%s/%s.out/%s.rebased.diff" % (SEED_ROOT, pid, x), "%s/%s.out/%s.patch.diff" % (SEED_ROOT, pid, x)]
    if SEED_ROOT != "/tmp/seed":
        cands = cands[1:]
    patch = next((c for c in cands if os.path.exists(c)), None)
    if not patch:
        print(n, "no patch")
        continue
    p = subprocess.run(["git", "-C", "/repo", "apply", patch], capture_output=True, text=True)
    if p.returncode != 0:
        print(n, "patch does not apply:", p.stderr[:300])
        continue
    try:
        for prop in (props or [pid]):
            env = dict(os.environ, VERIF_REPLAY_DIR="/tmp/verif-seed-replays", VERIF_EVIDENCE_DIR="/tmp/verif-seed-evidence")
            t0 = time.time()
            r = subprocess.run([os.path.join(ROOT, "check"), prop, "--tier", tier], capture_output=True, text=True, cwd=ROOT, env=env)
            sig = [l.strip() for l in r.stdout.splitlines() if l.strip().startswith("signature")]
            print("SEED %-5s check=%s rc=%d %.0fs %s" % (n, prop, r.returncode, time.time() - t0, sig[:3]), flush=True)
            if r.returncode == 2:
                print(r.stdout[-1200:])
            results.append(dict(seed=(n if SEED_ROOT == "/tmp/seed" else pid + {"A": "C", "B": "D"}[x]), check=prop, rc=r.returncode, secs=round(time.time() - t0), sig=sig[:3]))
    finally:
        subprocess.run(["git", "-C", "/repo", "checkout", "--", "."])
json.dump(results, open("/tmp/seedrun_%d.json" % int(time.time()), "w"), indent=1)
