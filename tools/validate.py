#!/usr/bin/env python3-vt
import json, jsonschema, glob, sys
ok = True
man = json.load(open('/verif/MANIFEST.json'))
jsonschema.validate(man, json.load(open('/root/.vp/MANIFEST.schema.json')))
sch = json.load(open('/root/.vp/EVIDENCE.schema.json'))
for f in sorted(glob.glob('/verif/evidence/*.json')):
    try:
        jsonschema.validate(json.load(open(f)), sch)
    except Exception as e:
        ok = False
        print("INVALID", f, str(e)[:300])
print("manifest ok;", len(man["checks"]), "checks; evidence", "ok" if ok else "INVALID")
sys.exit(0 if ok else 1)
