#!/usr/bin/env python3
"""Regenerates /verif/MANIFEST.json from props.py (claimed checks) and NOT_APPLICABLE below."""
import json, os, sys
ROOT = os.path.dirname(os.path.dirname(os.path.abspath(__file__)))
sys.path.insert(0, ROOT)
from props import PROPS, NOT_APPLICABLE, ENGINES, HOOK_COMMITS  # noqa

ids = [json.loads(l)["id"] for l in open(os.path.join(ROOT, "properties.jsonl"))]
checks = []
for pid in ids:
    if pid not in PROPS or PROPS[pid].get("unclaimed"):
        continue
    p = PROPS[pid]
    checks.append({
        "property_id": pid,
        "quick_cmd": "./check %s --tier quick" % pid,
        "thorough_cmd": "./check %s --tier thorough" % pid,
        "evidence_file": "/verif/evidence/%s.json" % pid,
        "replay_cmd_template": "./check %s --replay {path}" % pid,
        "engine": p["pkg"],
        "level_claimed": {"category": p["level"], "text": p["level_text"], "design_ref": p.get("design_ref", "DESIGN.md §3")},
        "level_note": p["level_note"],
        "technique": p["technique"],
    })
na = [dict(property_id=k, reason=v) for k, v in NOT_APPLICABLE.items() if k not in [c["property_id"] for c in checks]]
for pid in ids:
    if pid not in [c["property_id"] for c in checks] and pid not in NOT_APPLICABLE:
        na.append(dict(property_id=pid, reason="check not built yet (work in progress); no claim is made for this property at this commit"))
man = {
    "version": 1,
    "setup_cmd": "./setup.sh",
    "hooks": {
        "guard": "verif",
        "enable": "go build tag: the harness builds /repo with `-tags verif` (go test -c -tags verif in /verif/harness, replace github.com/couchbase/nitro => /repo)",
        "baseline_off_cmd": "cd /repo && GOFLAGS=-mod=mod go test -vet=off -count=1 -timeout 25m ./...",
        "source_commits": HOOK_COMMITS,
        "add_only": True,
    },
    "engines": ENGINES,
    "checks": checks,
    "not_applicable": na,
    "notes": "All checks are property-based tests / fuzzing (pgregory.net/rapid v1.3.0 state machines and generators, generated schedules, "
             "generated/enumerated faults). ./check <ID> --tier quick|thorough; VERIF_SEED selects the PRNG value. See DESIGN.md.",
}
json.dump(man, open(os.path.join(ROOT, "MANIFEST.json"), "w"), indent=1)
print("wrote MANIFEST.json with", len(checks), "checks,", len(na), "not_applicable")
