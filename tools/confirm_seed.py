#!/usr/bin/env python3
"""tools/confirm_seed.py <ID> <A|B> : confirm a sub-agent's seeded change in a scratch worktree of /repo HEAD:
patch applies, builds with and without the verif tag, the demonstration fails with it and passes without it,
and the existing suite (root, skiplist, nodetable) passes with it. Writes /tmp/seed/<ID>.out/confirm_<X>.json."""
import json, os, re, shutil, subprocess, sys, glob, time
pid, x = sys.argv[1], sys.argv[2]
out = "%s/%s.out" % (os.environ.get("SEED_ROOT", "/tmp/seed"), pid)
wt = "/tmp/confirm/%s%s%s" % (pid, x, "r2" if os.environ.get("SEED_ROOT") else "")
env = dict(os.environ, GOFLAGS="-mod=mod", GOPROXY="off", GOSUMDB="off", GOTOOLCHAIN="local", GOMAXPROCS="4")
res = {"id": pid, "which": x, "head": subprocess.run(["git", "-C", "/repo", "rev-parse", "--short", "HEAD"], capture_output=True, text=True).stdout.strip()}
def run(cmd, cwd=wt, timeout=3600):
    t0 = time.time()
    p = subprocess.run(cmd, cwd=cwd, env=env, capture_output=True, text=True, timeout=timeout, shell=isinstance(cmd, str))
    return p.returncode, (p.stdout + p.stderr)[-200000:], round(time.time() - t0, 1)
subprocess.run(["git", "-C", "/repo", "worktree", "remove", "--force", wt], capture_output=True)
shutil.rmtree(wt, ignore_errors=True)
os.makedirs("/tmp/confirm", exist_ok=True)
subprocess.run(["git", "-C", "/repo", "worktree", "add", "--detach", wt, "HEAD", "-q"], check=True)
try:
    patch = os.path.join(out, "%s.patch.diff" % x)
    rebased = os.path.join(out, "%s.rebased.diff" % x)
    src = rebased if os.path.exists(rebased) else patch
    rc, o, _ = run(["git", "apply", "--check", src])
    res["applies"] = rc == 0
    if rc != 0:
        rc3, o3, _ = run(["git", "apply", "-3", src])
        res["applies_3way"] = rc3 == 0
        if rc3 != 0:
            res["apply_error"] = (o + o3)[-2000:]
            raise SystemExit
    else:
        run(["git", "apply", src])
    rc, o, _ = run("go build ./... && go build -tags verif ./...")
    res["builds"] = rc == 0
    if rc != 0:
        res["build_error"] = o[-2000:]
        raise SystemExit
    _, diff, _ = run(["git", "diff"])
    res["diff_lines"] = len(diff.splitlines())
    # demos
    demos = sorted(set(glob.glob(os.path.join(out, "verif_demo_%s*_test.go" % x)) + glob.glob(os.path.join(out, "verif_demo_%s_*test.go" % x))))
    res["demos"] = []
    placed = []
    for d in demos:
        pkg = re.search(r"^package (\w+)", open(d).read(), re.M).group(1)
        sub = {"nitro": ".", "skiplist": "skiplist", "nodetable": "nodetable", "nitro_test": ".", "skiplist_test": "skiplist"}.get(pkg, ".")
        dst = os.path.join(wt, sub, os.path.basename(d))
        shutil.copy(d, dst)
        placed.append((d, sub, dst))
    def run_demos(label):
        r = []
        for d, sub, dst in placed:
            names = re.findall(r"^func (Test\w+)\(", open(d).read(), re.M)
            pat = "^(" + "|".join(names) + ")$"
            rc, o, secs = run("go test -tags verif -vet=off -count=1 -timeout 20m -run '%s' ./%s" % (pat, sub), timeout=1500)
            r.append({"demo": os.path.basename(d), "rc": rc, "secs": secs, "tail": o[-600:]})
        res[label] = r
    run_demos("demo_with_change")
    # existing suite with the change (demo files removed first)
    for _, _, dst in placed:
        os.remove(dst)
    rc, o, secs = run("go test -vet=off -count=1 -timeout 60m . ./skiplist ./nodetable", timeout=4000)
    res["suite_rc"], res["suite_secs"], res["suite_tail"] = rc, secs, o[-800:]
    res["suite_pkgs"] = re.findall(r"^(ok|FAIL|---\s+FAIL:?)\s+(\S+)", o, re.M)
    if rc != 0 and "TestInsert" in o and "skiplist" in o:
        rc2, o2, _ = run("go test -vet=off -count=1 ./skiplist")
        res["skiplist_rerun_rc"] = rc2
    # without the change
    run(["git", "checkout", "--", "."])
    for d, sub, dst in placed:
        shutil.copy(d, dst)
    run_demos("demo_without_change")
finally:
    json.dump(res, open(os.path.join(out, "confirm_%s.json" % x), "w"), indent=1)
    subprocess.run(["git", "-C", "/repo", "worktree", "remove", "--force", wt], capture_output=True)
    shutil.rmtree(wt, ignore_errors=True)
    print(json.dumps({k: v for k, v in res.items() if k not in ("suite_tail",)})[:1500])
