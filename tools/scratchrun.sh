#!/bin/sh
# tools/scratchrun.sh <patch-or-"-"> <check args...>: runs ./check from a scratch copy of /verif's *working tree*
# against a scratch worktree of /repo with the patch applied (never touches /repo). Scratch: /tmp/sr, removed afterwards.
set -e
patch="$1"; shift
rm -rf /tmp/sr; mkdir -p /tmp/sr
git -C /repo worktree prune
git -C /repo worktree add --detach /tmp/sr/repo HEAD -q
[ "$patch" = "-" ] || git -C /tmp/sr/repo apply "$patch"
rsync -a --exclude .git --exclude .work --exclude .build --exclude replays --exclude evidence /verif/ /tmp/sr/verif/
cd /tmp/sr/verif
VERIF_REPO=/tmp/sr/repo VERIF_REPLAY_DIR=/tmp/sr/replays VERIF_EVIDENCE_DIR=/tmp/sr/evidence ./check "$@" || echo "rc=$?"
cd /; git -C /repo worktree remove --force /tmp/sr/repo; [ -n "$KEEP" ] && cp -r /tmp/sr/replays /dev/shm/sr_replays; rm -rf /tmp/sr
