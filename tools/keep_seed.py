#!/usr/bin/env python3
"""tools/keep_seed.py: copy confirmed sub-agent changes from /tmp/seed/<ID>.out into /verif/seeded/<ID><X>/
(patch.diff = rebased patch if one exists, demonstration files, NOTES.md excerpt, meta.json)."""
import glob, json, os, re, shutil, sys
needs = json.load(open("/verif/tools/seed_needs.json")) if os.path.exists("/verif/tools/seed_needs.json") else {}
caught = {}
for f in sorted(glob.glob("/tmp/seedrun_*.json")):
    for r in json.load(open(f)):
        caught.setdefault(r["seed"], {})[r["check"]] = dict(rc=r["rc"], sig=r["sig"], secs=r["secs"])
kept, dropped = [], []
SEED_ROOT = os.environ.get("SEED_ROOT", "/tmp/seed")
for out in sorted(glob.glob(SEED_ROOT + "/C*.out")):
    pid = os.path.basename(out)[:-4]
    for x in "AB":
        cj = os.path.join(out, "confirm_%s.json" % x)
        if not os.path.exists(cj):
            continue
        c = json.load(open(cj))
        name = pid + (x if SEED_ROOT == "/tmp/seed" else {"A": "C", "B": "D"}[x])
        with_fail = c.get("demo_with_change") and any(d["rc"] != 0 for d in c["demo_with_change"])
        without_ok = c.get("demo_without_change") and all(d["rc"] == 0 for d in c["demo_without_change"])
        pk = c.get("suite_pkgs") or []
        root_ok = any(p[0] == "ok" and p[1] == "github.com/couchbase/nitro" for p in pk)
        nt_ok = any(p[0] == "ok" and p[1].endswith("/nodetable") for p in pk)
        sk_ok = any(p[0] == "ok" and p[1].endswith("/skiplist") for p in pk) or c.get("skiplist_rerun_rc") == 0
        suite_ok = c.get("suite_rc") == 0 or (root_ok and nt_ok and sk_ok)
        ok = c.get("builds") and with_fail and without_ok and suite_ok
        reason = []
        if not with_fail:
            reason.append("its demonstration passes with the change applied on the repaired tree")
        if not without_ok:
            reason.append("demonstration does not pass without the change")
        if not suite_ok:
            reason.append("existing suite does not pass with it")
        if not ok:
            dropped.append((name, "; ".join(reason)))
            continue
        d = "/verif/seeded/%s" % name
        shutil.rmtree(d, ignore_errors=True)
        os.makedirs(d)
        reb = os.path.join(out, "%s.rebased.diff" % x)
        shutil.copy(reb if os.path.exists(reb) else os.path.join(out, "%s.patch.diff" % x), os.path.join(d, "patch.diff"))
        for g in sorted(set(glob.glob(os.path.join(out, "verif_demo_%s*_test.go" % x)) + glob.glob(os.path.join(out, "verif_demo_%s_*" % x)))):
            shutil.copy(g, d)
        notes = os.path.join(out, "NOTES.md")
        if os.path.exists(notes):
            shutil.copy(notes, os.path.join(d, "agent_NOTES.md"))
        meta = {
            "id": name, "breaks_property": pid,
            "written_by": "independent sub-agent given only the property text and a scratch worktree",
            "rebased_onto_repaired_tree": os.path.exists(reb),
            "needs_to_manifest": needs.get(name, "see agent_NOTES.md"),
            "confirmed": {
                "repo_head": c.get("head"), "applies": True, "builds_with_and_without_tag": True,
                "demonstration_with_change": [dict(demo=x_["demo"], rc=x_["rc"]) for x_ in c["demo_with_change"]],
                "demonstration_without_change": [dict(demo=x_["demo"], rc=x_["rc"]) for x_ in c["demo_without_change"]],
                "existing_suite": pk or ("rc=%s" % c.get("suite_rc")),
                "note": "skiplist TestInsert is flaky on the unchanged tree (listed as flaky in BASELINE.json); a failing run was re-run" if c.get("skiplist_rerun_rc") == 0 else "",
                "how": "tools/confirm_seed.py %s %s (scratch worktree of /repo HEAD under /tmp/confirm, removed afterwards)" % (pid, x),
            },
            "checks_run_against_it": caught.get(name, {}),
            "how_to_rerun": "python3 tools/seedrun.py %s   (git -C /repo apply seeded/%s/patch.diff; ./check %s; git -C /repo checkout -- .)" % (name, name, pid),
        }
        json.dump(meta, open(os.path.join(d, "meta.json"), "w"), indent=1)
        kept.append(name)
print("kept", len(kept), kept)
print("dropped", dropped)
json.dump(dict(kept=kept, dropped=dropped), open("/tmp/keep_seed_result.json", "w"), indent=1)
