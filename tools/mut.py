#!/usr/bin/env python3
"""tools/mut.py <mutant> [ID ...] [--tier quick] : apply a mutant to /repo, run checks, revert."""
import os, subprocess, sys, time
ROOT = os.path.dirname(os.path.dirname(os.path.abspath(__file__)))
sys.path.insert(0, os.path.join(ROOT, "mutants"))
from mutants import M
args = [a for a in sys.argv[1:] if not a.startswith("--")]
tier = "quick"
for a in sys.argv[1:]:
    if a.startswith("--tier="):
        tier = a.split("=")[1]
if args and args[0] == "all":
    names = list(M)
    ids_override = None
else:
    names = [args[0]]
    ids_override = args[1:] or None
st = subprocess.run(["git", "-C", "/repo", "status", "--porcelain", "--untracked-files=no"], capture_output=True, text=True).stdout
if st.strip():
    print("refusing: /repo has uncommitted changes\n" + st)
    sys.exit(2)
res = []
for name in names:
    props, file, old, new = M[name]
    path = os.path.join("/repo", file)
    src = open(path).read()
    if src.count(old) != 1:
        print("MUTANT %s: pattern occurs %d times in %s" % (name, src.count(old), file))
        res.append((name, "?", "pattern"))
        continue
    try:
        open(path, "w").write(src.replace(old, new))
        for pid in (ids_override or props):
            t0 = time.time()
            env = dict(os.environ, VERIF_REPLAY_DIR="/tmp/verif-mut-replays", VERIF_EVIDENCE_DIR="/tmp/verif-mut-evidence")
            p = subprocess.run([os.path.join(ROOT, "check"), pid, "--tier", tier], capture_output=True, text=True, cwd=ROOT, env=env)
            last = [l for l in p.stdout.splitlines() if l.startswith("VIOLATION") or l.startswith("  signature")][:2]
            print("MUTANT %-28s %s rc=%d %.0fs %s" % (name, pid, p.returncode, time.time() - t0, " | ".join(last)))
            res.append((name, pid, p.returncode))
            if p.returncode not in (0, 1):
                print(p.stdout[-1500:])
    finally:
        subprocess.run(["git", "-C", "/repo", "checkout", "--", "."])
missed = [r for r in res if r[2] != 1]
print("missed:", missed)
