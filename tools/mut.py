#!/usr/bin/env python3
"""tools/mut.py [--tier=quick] [--jobs=N] all | <mutant> [ID ...]
Applies hand-written mutants (mutants/mutants.py) to scratch worktrees of /repo (never to /repo itself), runs the
named checks from a scratch worktree of /verif pointed at that copy (VERIF_REPO), and reports which checks fail.
Results: /verif/mutants/results.json."""
import json, os, shutil, subprocess, sys, time
from concurrent.futures import ThreadPoolExecutor
ROOT = os.path.dirname(os.path.dirname(os.path.abspath(__file__)))
sys.path.insert(0, os.path.join(ROOT, "mutants"))
from mutants import M, REVERTS
args = [a for a in sys.argv[1:] if not a.startswith("--")]
tier, jobs = "quick", 3
for a in sys.argv[1:]:
    if a.startswith("--tier="):
        tier = a.split("=")[1]
    if a.startswith("--jobs="):
        jobs = int(a.split("=")[1])
only = [a.split("=")[1].split(",") for a in sys.argv[1:] if a.startswith("--only=")]
if only:
    # --only=a,b,c : re-run these mutants/reverts against their listed checks and merge the rows into results.json
    work = [(n, p) for n in only[0] for p in (REVERTS[n][1] if n in REVERTS else M[n][0])]
elif args and args[0] == "all":
    work = [(n, p) for n, (props, _, _, _) in M.items() for p in props] + [(n, p) for n, (_, props) in REVERTS.items() for p in props]
elif args and args[0] == "reverts":
    work = [(n, p) for n, (_, props) in REVERTS.items() for p in props]
elif args[0] in REVERTS:
    work = [(args[0], p) for p in (args[1:] or REVERTS[args[0]][1])]
else:
    work = [(args[0], p) for p in (args[1:] or M[args[0]][0])]
BASE = "/tmp/mutw"


def setup(i):
    r, v = "%s/repo%d" % (BASE, i), "%s/verif%d" % (BASE, i)
    for d, src in ((r, "/repo"), (v, "/verif")):
        subprocess.run(["git", "-C", src, "worktree", "remove", "--force", d], capture_output=True)
        shutil.rmtree(d, ignore_errors=True)
        subprocess.run(["git", "-C", src, "worktree", "add", "--detach", d, "HEAD", "-q"], check=True)
    return r, v


def teardown(i):
    for d, src in (("%s/repo%d" % (BASE, i), "/repo"), ("%s/verif%d" % (BASE, i), "/verif")):
        subprocess.run(["git", "-C", src, "worktree", "remove", "--force", d], capture_output=True)
        shutil.rmtree(d, ignore_errors=True)


def worker(i, items):
    out = []
    r, v = setup(i)
    try:
        for name, pid in items:
            if name in REVERTS:
                rv = subprocess.run(["git", "-C", r, "revert", "-n", "--no-edit", REVERTS[name][0]], capture_output=True, text=True)
                if rv.returncode != 0:
                    subprocess.run(["git", "-C", r, "reset", "--hard", "-q", "HEAD"])
                    out.append(dict(mutant=name, check=pid, rc="conflict"))
                    print("MUTANT %-32s %s revert conflicts" % (name, pid), flush=True)
                    continue
                path, src = None, None
            else:
                props, file, old, new = M[name]
                path = os.path.join(r, file)
                src = open(path).read()
                if src.count(old) != 1:
                    out.append(dict(mutant=name, check=pid, rc="pattern"))
                    print("MUTANT %-32s %s pattern occurs %d times" % (name, pid, src.count(old)), flush=True)
                    continue
                open(path, "w").write(src.replace(old, new))
            try:
                env = dict(os.environ, VERIF_REPO=r, VERIF_REPLAY_DIR="%s/replays%d" % (BASE, i), VERIF_EVIDENCE_DIR="%s/evidence%d" % (BASE, i))
                t0 = time.time()
                p = subprocess.run([os.path.join(v, "check"), pid, "--tier", tier], capture_output=True, text=True, cwd=v, env=env)
                sig = [l.strip()[11:] for l in p.stdout.splitlines() if l.strip().startswith("signature:")]
                print("MUTANT %-32s %s rc=%d %.0fs %s" % (name, pid, p.returncode, time.time() - t0, sig[:2]), flush=True)
                if p.returncode not in (0, 1):
                    print(p.stdout[-800:], flush=True)
                out.append(dict(mutant=name, check=pid, rc=p.returncode, secs=round(time.time() - t0), sig=sig[:2]))
            finally:
                if path:
                    open(path, "w").write(src)
                else:
                    subprocess.run(["git", "-C", r, "reset", "--hard", "-q", "HEAD"])
    finally:
        teardown(i)
    return out


os.makedirs(BASE, exist_ok=True)
chunks = [work[i::jobs] for i in range(jobs)]
res = []
with ThreadPoolExecutor(jobs) as ex:
    for r in ex.map(lambda a: worker(*a), [(i, c) for i, c in enumerate(chunks) if c]):
        res += r
missed = [(r["mutant"], r["check"], r["rc"]) for r in res if r["rc"] != 1]
print("run:", len(res), "caught:", len(res) - len(missed), "not caught:", missed)
if only:
    rp = os.path.join(ROOT, "mutants", "results.json")
    old = json.load(open(rp))
    keep = [r for r in old["results"] if (r["mutant"], r["check"]) not in {(x["mutant"], x["check"]) for x in res}]
    old["results"] = sorted(keep + res, key=lambda r: (r["mutant"], r["check"]))
    old["head"] = old["head"].split(" ")[0] + " (rows re-run later carry their own head)"
    head = subprocess.run(["git", "-C", "/repo", "rev-parse", "--short", "HEAD"], capture_output=True, text=True).stdout.strip()
    for r in res:
        r["head"] = head
    json.dump(old, open(rp, "w"), indent=1)
elif args and args[0] == "all":
    json.dump(dict(tier=tier, head=subprocess.run(["git", "-C", "/repo", "rev-parse", "--short", "HEAD"], capture_output=True, text=True).stdout.strip(),
                   results=sorted(res, key=lambda r: (r["mutant"], r["check"]))), open(os.path.join(ROOT, "mutants", "results.json"), "w"), indent=1)
