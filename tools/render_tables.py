#!/usr/bin/env python3
"""Renders mutants/results.json and seeded/MATRIX.json into DESIGN.md between the marker comments."""
import json, os, re, sys
ROOT = "/verif"
sys.path.insert(0, ROOT + "/mutants")
from mutants import M, REVERTS
d = open(ROOT + "/DESIGN.md").read()


def put(tag, text):
    global d
    a, b = "<!-- %s-BEGIN -->" % tag, "<!-- %s-END -->" % tag
    i, j = d.index(a) + len(a), d.index(b)
    d = d[:i] + "\n" + text + "\n" + d[j:]


res = json.load(open(ROOT + "/mutants/results.json"))
rows = {}
for r in res["results"]:
    rows.setdefault(r["mutant"], []).append(r)
out = ["Tier `%s`, /repo at %s. One line per mutant: the checks it was run against and their verdicts (`caught` = exit 1 with the signature shown)." % (res["tier"], res["head"]), "",
       "| Mutant | What it changes | Checks → verdict |", "|---|---|---|"]
for name in sorted(rows):
    if name in REVERTS:
        what = "`git revert` of repair %s" % REVERTS[name][0]
    else:
        what = "`%s`" % M[name][1] if name in M else ""
    v = []
    for r in rows[name]:
        if r["rc"] == 1:
            v.append("%s caught (%s, %ss)" % (r["check"], ", ".join(r.get("sig", [])[:1]), r.get("secs", "?")))
        else:
            v.append("%s **not caught** (rc=%s)" % (r["check"], r["rc"]))
    out.append("| %s | %s | %s |" % (name, what, "; ".join(v)))
put("MUTANTS", "\n".join(out))

mat = json.load(open(ROOT + "/seeded/MATRIX.json"))
out = ["Tier `%s`, /repo at %s, /verif at %s." % (mat["tier"], mat["heads"]["repo"], mat["heads"]["verif"]), "",
       "| Seed | Breaks | What it needs to manifest | Checks → verdict |", "|---|---|---|---|"]
needs = json.load(open(ROOT + "/tools/seed_needs.json"))
for name in sorted(mat["matrix"]):
    v = []
    for chk, r in sorted(mat["matrix"][name].items(), key=lambda kv: (kv[0] != name[:3], kv[0])):
        if r["rc"] == 1:
            v.append("%s caught (%s, %ss)" % (chk, ", ".join(r.get("sig", [])[:1]), r.get("secs", "?")))
        else:
            v.append("%s not caught (rc=%s)" % (chk, r["rc"]))
    out.append("| %s | %s | %s | %s |" % (name, name[:3], needs.get(name, "").replace("|", "/"), "; ".join(v)))
put("SEEDS", "\n".join(out))
sys.path.insert(0, ROOT)
from props import PROPS
tt = {}
if os.path.exists(ROOT + "/tools/thorough_times.json"):
    tt = json.load(open(ROOT + "/tools/thorough_times.json"))
out = ["| Id | Package(s): test functions | Deciding method | Level | quick: cases / s | thorough: cases / s |", "|---|---|---|---|---|---|"]
for pid in sorted(PROPS):
    p = PROPS[pid]
    tests = ", ".join("%s%s" % (t["name"], " (fuzz %ds)" % t["fuzz"] if t.get("fuzz") else "") for t in p["tests"])
    pk = "+".join(sorted(set([p["pkg"]] + [t.get("pkg", p["pkg"]) for t in p["tests"]])))
    q = ""
    ef = ROOT + "/evidence/%s.json" % pid
    if os.path.exists(ef):
        e = json.load(open(ef))
        if e.get("tier") == "quick":
            q = "%d / %.0f" % (e["coverage"]["evaluations"], e["wall_s"])
    th = tt.get(pid)
    out.append("| %s | %s: %s | %s | %s | %s | %s |" % (pid, pk, tests, p["technique"], p["level"], q, ("%d / %.0f" % (th["cases"], th["secs"])) if th else ""))
put("SUMMARY", "\n".join(out))
open(ROOT + "/DESIGN.md", "w").write(d)
print("rendered")
