#!/usr/bin/env python3
"""tools/seedmatrix.py [--jobs=N] [--tier=quick] [names...]: run each stored seeded change (seeded/<name>/patch.diff) against the check
of the property it breaks (plus the related checks listed below) in scratch worktrees (never /repo itself); updates each
meta.json ("checks_run_against_it") and writes seeded/MATRIX.json."""
import json, os, shutil, subprocess, sys, time, glob
from concurrent.futures import ThreadPoolExecutor
ROOT = "/verif"
BASE = "/tmp/seedm"
RELATED = {"C16C": ["C17"], "C10D": ["C01", "C04"], "C12D": ["C05"], "C17D": ["C04", "C15"], "C01C": ["C03"], "C01D": ["C09"], "C05C": ["C10"], "C04D": ["C06", "C07"], "C06D": ["C04"],
           "C07B": ["C04", "C06"], "C14B": ["C15"], "C15D": ["C13"], "C05D": ["C07"], "C17B": ["C16"], "C07A": ["C04"], "C04B": ["C07"]}
tier, jobs = "quick", 3
names = []
root = None
for a in sys.argv[1:]:
    if a.startswith("--root="):
        root = a.split("=")[1]
        continue
    if a.startswith("--tier="):
        tier = a.split("=")[1]
    elif a.startswith("--jobs="):
        jobs = int(a.split("=")[1])
    else:
        names.append(a)
names = names or sorted(os.path.basename(d) for d in glob.glob(ROOT + "/seeded/C*") if os.path.isdir(d))
work = [(n, p) for n in names for p in [n[:3]] + RELATED.get(n, [])]


def setup(i):
    r, v = "%s/repo%d" % (BASE, i), "%s/verif%d" % (BASE, i)
    for d, src in ((r, "/repo"), (v, "/verif")):
        subprocess.run(["git", "-C", src, "worktree", "remove", "--force", d], capture_output=True)
        shutil.rmtree(d, ignore_errors=True)
        subprocess.run(["git", "-C", src, "worktree", "add", "--detach", d, "HEAD", "-q"], check=True)
    return r, v


def worker(i, items):
    out = []
    r, v = setup(i)
    try:
        for name, pid in items:
            patch = "%s/seeded/%s/patch.diff" % (ROOT, name)
            if root:
                patch = "%s/%s.out/%s.patch.diff" % (root, name[:3], {"C": "A", "D": "B"}[name[3]])
            a = subprocess.run(["git", "-C", r, "apply", patch], capture_output=True, text=True)
            if a.returncode != 0:
                out.append(dict(seed=name, check=pid, rc="does-not-apply"))
                print("SEED %-5s %s does not apply: %s" % (name, pid, a.stderr[:200]), flush=True)
                continue
            try:
                env = dict(os.environ, VERIF_REPO=r, VERIF_REPLAY_DIR="%s/replays%d" % (BASE, i), VERIF_EVIDENCE_DIR="%s/evidence%d" % (BASE, i))
                t0 = time.time()
                p = subprocess.run([os.path.join(v, "check"), pid, "--tier", tier], capture_output=True, text=True, cwd=v, env=env)
                sig = [l.strip()[11:] for l in p.stdout.splitlines() if l.strip().startswith("signature:")]
                print("SEED %-5s check=%s rc=%d %.0fs %s" % (name, pid, p.returncode, time.time() - t0, sig[:2]), flush=True)
                out.append(dict(seed=name, check=pid, rc=p.returncode, secs=round(time.time() - t0), sig=sig[:2]))
            finally:
                subprocess.run(["git", "-C", r, "checkout", "--", "."])
    finally:
        for d, src in (("%s/repo%d" % (BASE, i), "/repo"), ("%s/verif%d" % (BASE, i), "/verif")):
            subprocess.run(["git", "-C", src, "worktree", "remove", "--force", d], capture_output=True)
            shutil.rmtree(d, ignore_errors=True)
    return out


os.makedirs(BASE, exist_ok=True)
chunks = [work[i::jobs] for i in range(jobs)]
res = []
with ThreadPoolExecutor(jobs) as ex:
    for r in ex.map(lambda a: worker(*a), [(i, c) for i, c in enumerate(chunks) if c]):
        res += r
by = {}
for r in res:
    by.setdefault(r["seed"], {})[r["check"]] = {k: r[k] for k in r if k not in ("seed", "check")}
heads = dict(repo=subprocess.run(["git", "-C", "/repo", "rev-parse", "--short", "HEAD"], capture_output=True, text=True).stdout.strip(),
             verif=subprocess.run(["git", "-C", "/verif", "rev-parse", "--short", "HEAD"], capture_output=True, text=True).stdout.strip())
if root:
    json.dump(by, open("/tmp/seedmatrix_%s.json" % os.path.basename(root), "w"), indent=1)
    print(json.dumps({n: {c: r["rc"] for c, r in v.items()} for n, v in by.items()}))
    sys.exit(0)
for n, checks in by.items():
    mp = "%s/seeded/%s/meta.json" % (ROOT, n)
    m = json.load(open(mp))
    m["checks_run_against_it"] = checks
    m["checks_run_at"] = heads
    json.dump(m, open(mp, "w"), indent=1)
mat = {}
mpath = ROOT + "/seeded/MATRIX.json"
# the matrix is always rebuilt from every stored seed's meta.json, so a partial run cannot drop rows
import glob
for mp in sorted(glob.glob(ROOT + "/seeded/*/meta.json")):
    m = json.load(open(mp))
    if m.get("checks_run_against_it"):
        mat[os.path.basename(os.path.dirname(mp))] = m["checks_run_against_it"]
json.dump(dict(tier=tier, heads=heads, matrix=mat), open(mpath, "w"), indent=1)
own_missed = [n for n in by if by[n].get(n[:3], {}).get("rc") != 1]
print("seeds:", len(by), "own property's check caught:", len(by) - len(own_missed), "not caught by own check:", own_missed)
